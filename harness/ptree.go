package main

import (
	"fmt"
	"math/rand"
	"reflect"
	"sort"
	"strconv"
	"strings"

	"github.com/rkosegi/yaml-toolkit/dom"
	"github.com/rkosegi/yaml-toolkit/pipeline"
	"gopkg.in/yaml.v3"
)

// ---- action trees shared by the pipeline properties (C12, C14)
type tpart struct {
	Lit string `json:"lit,omitempty"`
	Var string `json:"var,omitempty"`
}

type pCond struct {
	Kind string `json:"kind"` // none const eq lt bad
	B    bool   `json:"b,omitempty"`
	K    string `json:"k,omitempty"`
	S    string `json:"s,omitempty"`
	N    int    `json:"n,omitempty"`
	R    string `json:"r,omitempty"` // (kind tmpl) what the template text S renders to over the case's data
}

type pOp struct {
	Kind     string         `json:"kind"` // set template call define trace foreach log loop abort
	Path     string         `json:"path,omitempty"`
	Strategy string         `json:"strategy,omitempty"` // "", merge, replace, bogus
	Data     map[string]any `json:"data,omitempty"`
	NoData   bool           `json:"nodata,omitempty"`
	Tmpl     []tpart        `json:"tmpl,omitempty"`
	ID       string         `json:"id,omitempty"`
	Name     string         `json:"name,omitempty"`
	ArgsPath string         `json:"argsPath,omitempty"`
	// ArgsPathTmpl, when set, is the template text written into the action (it renders to ArgsPath against the data of the case)
	ArgsPathTmpl string         `json:"argsPathTmpl,omitempty"`
	Args         map[string]any `json:"args,omitempty"` // []tpart | map[string][]tpart
	Items        []string       `json:"items,omitempty"`
	// Glob, when set, is what the action says (a file pattern); Items then lists the files it matches, in order
	Glob  string `json:"glob,omitempty"`
	Query string `json:"query,omitempty"`
	Var   string `json:"var,omitempty"`
	Body  *pAct  `json:"body,omitempty"`
	Init  *pAct  `json:"init,omitempty"`
	Post  *pAct  `json:"post,omitempty"`
	Test  pCond  `json:"test,omitempty"`
}

type pAct struct {
	Name     string  `json:"name"`
	Order    int     `json:"order"`
	When     pCond   `json:"when"`
	Ops      []pOp   `json:"ops,omitempty"`
	Children []*pAct `json:"children,omitempty"`
}

// literal call arguments
func litArgs(m map[string]string) map[string]any {
	out := map[string]any{}
	for k, v := range m {
		out[k] = []tpart{{Lit: v}}
	}
	return out
}

func tmplString(t []tpart) string {
	var sb strings.Builder
	for _, p := range t {
		if p.Var != "" {
			sb.WriteString("{{ ." + p.Var + " }}")
		} else {
			sb.WriteString(p.Lit)
		}
	}
	return sb.String()
}

func (c pCond) yaml() (string, bool) {
	switch c.Kind {
	case "const":
		return fmt.Sprint(c.B), true
	case "eq":
		return fmt.Sprintf(`{{ eq .%s %q }}`, c.K, c.S), true
	case "lt":
		return fmt.Sprintf(`{{ lt (.%s | int) %d }}`, c.K, c.N), true
	case "bad":
		return "maybe", true
	case "text":
		return c.S, true
	case "padvar": // a condition that renders a data key whose value carries blanks around the boolean text
		return "{{ ." + c.K + " }}", true
	case "tmpl": // a condition over data no action writes (c12Extra)
		return c.S, true
	}
	return "", false
}

// data no operation writes: a float with a whole value, a float with a fraction, an integer, and a flag 34 mappings deep
func c12Extra() map[string]any {
	var deep any = map[string]any{"flag": "on", "n": 3}
	for i := 34; i >= 2; i-- {
		deep = map[string]any{fmt.Sprint("l", i): deep}
	}
	return map[string]any{"ratio": 2.0, "share": 0.75, "count": 3, "nest": deep}
}

var c12DeepPath = func() string {
	p := ".nest"
	for i := 2; i <= 34; i++ {
		p += fmt.Sprint(".l", i)
	}
	return p
}()

// conditions over that data, with what each renders to
var c12ExtraConds = []pCond{
	{Kind: "tmpl", S: "{{ lt .ratio 2.5 }}", R: "true"},
	{Kind: "tmpl", S: "{{ gt .ratio 2.5 }}", R: "false"},
	{Kind: "tmpl", S: "{{ eq .ratio 2.0 }}", R: "true"},
	{Kind: "tmpl", S: "{{ lt .share .ratio }}", R: "true"},
	{Kind: "tmpl", S: "{{ eq .count 3 }}", R: "true"},
	{Kind: "tmpl", S: "{{ eq " + c12DeepPath + ".flag \"on\" }}", R: "true"},
	{Kind: "tmpl", S: "{{ eq " + c12DeepPath + ".flag \"off\" }}", R: "false"},
	{Kind: "tmpl", S: "{{ if " + c12DeepPath + ".flag }}true{{ else }}false{{ end }}", R: "true"},
	{Kind: "tmpl", S: "{{ eq " + c12DeepPath + ".n 3 }}", R: "true"},
}

// the padded boolean texts the data of the C12 cases holds (never written by any operation)
var c12Pads = map[string]string{"padT": " true\n", "padF": "\tfalse ", "padB": " maybe "}

func (a *pAct) yamlMap() map[string]any {
	m := map[string]any{"name": a.Name}
	if a.Order != 0 {
		m["order"] = a.Order
	}
	if w, ok := a.When.yaml(); ok {
		m["when"] = w
	}
	for _, o := range a.Ops {
		switch o.Kind {
		case "set":
			sm := map[string]any{}
			if !o.NoData {
				sm["data"] = o.Data
			}
			if o.Path != "" {
				sm["path"] = o.Path
			}
			if o.Strategy != "" {
				sm["strategy"] = o.Strategy
			}
			m["set"] = sm
		case "template":
			m["template"] = map[string]any{"template": tmplString(o.Tmpl), "path": o.Path}
		case "log":
			m["log"] = map[string]any{"message": tmplString(o.Tmpl)}
		case "abort":
			m["abort"] = map[string]any{"message": tmplString(o.Tmpl)}
		case "trace":
			m["ext"] = map[string]any{"func": "trace", "args": map[string]any{"id": o.ID}}
		case "define":
			m["define"] = map[string]any{"name": o.Name, "action": o.Body.yamlMap()}
		case "call":
			cm := map[string]any{"name": o.Name}
			if o.ArgsPathTmpl != "" {
				cm["argsPath"] = o.ArgsPathTmpl
			} else if o.ArgsPath != "" {
				cm["argsPath"] = o.ArgsPath
			}
			args := map[string]any{}
			for k, v := range o.Args {
				switch x := v.(type) {
				case []tpart:
					args[k] = tmplString(x)
				case map[string][]tpart:
					sub := map[string]any{}
					for k2, t := range x {
						sub[k2] = tmplString(t)
					}
					args[k] = sub
				}
			}
			cm["args"] = args
			m["call"] = cm
		case "foreach":
			fm := map[string]any{"action": o.Body.yamlMap()}
			if o.Var != "" {
				fm["var"] = o.Var
			}
			if o.Glob != "" {
				fm["glob"] = o.Glob
			} else if o.Query != "" {
				fm["query"] = o.Query
			} else {
				its := []any{}
				for _, i := range o.Items {
					its = append(its, i)
				}
				fm["item"] = its
			}
			m["forEach"] = fm
		case "loop":
			lm := map[string]any{"action": o.Body.yamlMap()}
			if t, ok := o.Test.yaml(); ok {
				lm["test"] = t
			}
			if o.Init != nil {
				lm["init"] = o.Init.yamlMap()
			}
			if o.Post != nil {
				lm["postAction"] = o.Post.yamlMap()
			}
			m["loop"] = lm
		}
	}
	if len(a.Children) > 0 {
		st := map[string]any{}
		for _, c := range a.Children {
			st[c.Name] = c.yamlMap()
		}
		m["steps"] = st
	}
	return m
}

// ---- Gallina
func gTmpl(t []tpart) string {
	return gList(t, func(p tpart) string {
		if strings.Contains(p.Var, ".") {
			return "PPath " + gStrs(strings.Split(p.Var, "."))
		}
		if p.Var != "" {
			return "PVar " + gStr(p.Var)
		}
		return "PLit " + gStr(p.Lit)
	})
}

func (c pCond) gallina() string {
	switch c.Kind {
	case "const":
		return "(CConst " + gBool(c.B) + ")"
	case "eq":
		return "(CEq " + gStr(c.K) + " " + gStr(c.S) + ")"
	case "lt":
		return "(CLt " + gStr(c.K) + " " + gZ(int64(c.N)) + ")"
	case "bad":
		return "CBad"
	case "text":
		return "(CText " + gStr(c.S) + ")"
	case "padvar": // what the template renders to is that key's text: blanks are trimmed from the RENDERED text
		return "(CText " + gStr(c12Pads[c.K]) + ")"
	case "tmpl":
		return "(CText " + gStr(c.R) + ")"
	}
	return "CNone"
}

func gOptAct(a *pAct) string {
	if a == nil {
		return "None"
	}
	return "(Some " + a.gallina() + ")"
}

func (o pOp) gallina() string {
	switch o.Kind {
	case "set":
		strat := map[string]string{"": "SUnset", "merge": "SMerge", "replace": "SReplace"}[o.Strategy]
		if strat == "" {
			strat = "SUnknown"
		}
		payload := "None"
		if !o.NoData {
			payload = "(Some " + gData(o.Data) + ")"
		}
		return "OpSet " + strat + " " + gStr(o.Path) + " " + payload
	case "template":
		return "OpTemplate " + gTmpl(o.Tmpl) + " " + gStr(o.Path)
	case "log":
		return "OpLog " + gTmpl(o.Tmpl)
	case "abort":
		return "OpAbort " + gTmpl(o.Tmpl)
	case "trace":
		return "OpTrace " + gStr(o.ID)
	case "define":
		return "OpDefine " + gStr(o.Name) + " " + o.Body.gallina()
	case "call":
		ap := o.ArgsPath
		if ap == "" {
			ap = "args"
		}
		return "OpCall " + gStr(o.Name) + " " + gStr(ap) + " " + gList(sortedKeys(o.Args), func(k string) string {
			switch x := o.Args[k].(type) {
			case map[string][]tpart:
				return "(" + gStr(k) + ", ASub " + gList(sortedKeys(x), func(k2 string) string { return "(" + gStr(k2) + ", " + gTmpl(x[k2]) + ")" }) + ")"
			case []tpart:
				return "(" + gStr(k) + ", ALeaf " + gTmpl(x) + ")"
			}
			return "(" + gStr(k) + ", ALeaf [])"
		})
	case "foreach":
		v := o.Var
		if v == "" {
			v = "forEach"
		}
		src := "(SItems " + gStrs(o.Items) + ")"
		if o.Query != "" {
			src = "(SQuery " + gStr(o.Query) + ")"
		}
		return "OpForEach " + src + " " + gStr(v) + " " + o.Body.gallina()
	case "loop":
		return "OpLoop " + gOptAct(o.Init) + " " + o.Test.gallina() + " " + o.Body.gallina() + " " + gOptAct(o.Post)
	}
	return "OpAbort []"
}

func (a *pAct) gallina() string {
	return "(Act " + gStr(a.Name) + " " + gZ(int64(a.Order)) + " " + a.When.gallina() + " " +
		gList(a.Ops, func(o pOp) string { return o.gallina() }) + " " +
		gList(a.Children, func(c *pAct) string { return c.gallina() }) + ")"
}

// ---- listener and the trace extension
type pEvent struct {
	Kind  string // B A L T
	Label string
	Err   bool
}

func (e pEvent) gallina() string {
	switch e.Kind {
	case "B":
		return "EB " + e.Label
	case "A":
		return "EA " + e.Label + " " + gBool(e.Err)
	case "L":
		return "ELog " + gStr(e.Label)
	default:
		return "ETrace " + gStr(e.Label)
	}
}

func (e pEvent) String() string {
	if e.Kind == "A" {
		return fmt.Sprintf("A:%s:%v", e.Label, e.Err)
	}
	return e.Kind + ":" + e.Label
}

type evListener struct{ evs []pEvent }

func labelOf(a pipeline.Action) string {
	switch x := a.(type) {
	case pipeline.ActionSpec:
		return "(LAct " + gStr(x.Name) + ")"
	case *pipeline.ActionSpec:
		return "(LAct " + gStr(x.Name) + ")"
	case pipeline.OpSpec:
		return "LOps"
	case pipeline.ChildActions:
		return "LChildren"
	case *pipeline.SetOp:
		return "(LOp \"set\")"
	case *pipeline.TemplateOp:
		return "(LOp \"template\")"
	case *pipeline.LogOp:
		return "(LOp \"log\")"
	case *pipeline.AbortOp:
		return "(LOp \"abort\")"
	case *pipeline.ExtOp:
		return "(LOp \"ext\")"
	case *pipeline.ForEachOp:
		return "(LOp \"forEach\")"
	case *pipeline.LoopOp:
		return "(LOp \"loop\")"
	case *pipeline.CallOp:
		return "(LOp \"call\")"
	case *pipeline.DefineOp:
		return "(LOp \"define\")"
	case *traceAct:
		return "(LInner " + gStr(x.id) + ")"
	}
	return "(LOp " + gStr(fmt.Sprintf("%T", a)) + ")"
}

func (l *evListener) OnBefore(ctx pipeline.ActionContext) {
	l.evs = append(l.evs, pEvent{Kind: "B", Label: labelOf(ctx.Action())})
}
func (l *evListener) OnAfter(ctx pipeline.ActionContext, err error) {
	l.evs = append(l.evs, pEvent{Kind: "A", Label: labelOf(ctx.Action()), Err: err != nil})
}
func (l *evListener) OnLog(ctx pipeline.ActionContext, v ...interface{}) {
	s := fmt.Sprint(v...)
	l.evs = append(l.evs, pEvent{Kind: "L", Label: strings.TrimSuffix(strings.TrimPrefix(s, "["), "]")})
}

type traceAct struct {
	id string
	l  *evListener
}

func (t *traceAct) String() string { return "trace " + t.id }
func (t *traceAct) Do(ctx pipeline.ActionContext) error {
	t.l.evs = append(t.l.evs, pEvent{Kind: "T", Label: t.id})
	return nil
}
func (t *traceAct) CloneWith(ctx pipeline.ActionContext) pipeline.Action { return t }

type traceFactory struct{ l *evListener }

func (f *traceFactory) NewForArgs(args map[string]interface{}) pipeline.Action {
	return &traceAct{id: fmt.Sprint(args["id"]), l: f.l}
}

// run a tree through the real executor (decoded from YAML so the decoding glue is exercised)
func runTree(a *pAct, data map[string]any) (evs []pEvent, failed bool, final any, panicked string, decodeErr error) {
	bs, err := yaml.Marshal(a.yamlMap())
	if err != nil {
		return nil, false, nil, "", err
	}
	var spec pipeline.ActionSpec
	if err := yaml.Unmarshal(bs, &spec); err != nil {
		return nil, false, nil, "", err
	}
	l := &evListener{}
	d := anyToContainer(data)
	ex := pipeline.New(pipeline.WithListener(l), pipeline.WithData(d),
		pipeline.WithExtActions(map[string]pipeline.ActionFactory{"trace": &traceFactory{l: l}}))
	var runErr error
	panicked = guard(func() { runErr = ex.Execute(spec) })
	// the same decoded tree run once more, by another executor with its own listener, its own
	// extension actions and equal data: a tree is a description, not a run — same events, same outcome
	rerunMismatch = ""
	if panicked == "" {
		l2 := &evListener{}
		d2 := anyToContainer(data)
		ex2 := pipeline.New(pipeline.WithListener(l2), pipeline.WithData(d2),
			pipeline.WithExtActions(map[string]pipeline.ActionFactory{"trace": &traceFactory{l: l2}}))
		var err2 error
		pn2 := guard(func() { err2 = ex2.Execute(spec) })
		switch {
		case pn2 != "":
			rerunMismatch = "running the same tree on a second executor panicked: " + pn2
		case (err2 != nil) != (runErr != nil):
			rerunMismatch = fmt.Sprintf("the same tree on a second executor: failed=%v, first run failed=%v", err2 != nil, runErr != nil)
		case !reflect.DeepEqual(evStrings(l2.evs), evStrings(l.evs)):
			rerunMismatch = fmt.Sprintf("the same tree on a second executor produced other events: %v", evStrings(l2.evs))
		case !reflect.DeepEqual(nodeToAny(d2), nodeToAny(d)):
			rerunMismatch = "the same tree on a second executor left other data"
		}
	}
	return l.evs, runErr != nil, nodeToAny(d), panicked, nil
}

// set by runTree, read by execCase
var rerunMismatch string

// Dyck check: every OnBefore(a) is closed by exactly one OnAfter(a, err), properly nested
func wellNested(evs []pEvent) string {
	var stack []string
	for _, e := range evs {
		switch e.Kind {
		case "B":
			stack = append(stack, e.Label)
		case "A":
			if len(stack) == 0 || stack[len(stack)-1] != e.Label {
				return "OnAfter(" + e.Label + ") does not close the innermost open OnBefore"
			}
			stack = stack[:len(stack)-1]
		}
	}
	if len(stack) != 0 {
		return "OnBefore(" + stack[len(stack)-1] + ") never closed"
	}
	return ""
}

func evStrings(evs []pEvent) []string {
	out := make([]string, len(evs))
	for i, e := range evs {
		out[i] = e.String()
	}
	return out
}

// two runs on ONE executor: whatever the first run registered (defines) or left in the data is what
// the second run starts from, also when the first run failed
func runTree2(a1, a2 *pAct, data map[string]any) (evs []pEvent, failed bool, final any, panicked string, decodeErr error) {
	var specs []pipeline.ActionSpec
	for _, a := range []*pAct{a1, a2} {
		bs, err := yaml.Marshal(a.yamlMap())
		if err != nil {
			return nil, false, nil, "", err
		}
		var spec pipeline.ActionSpec
		if err := yaml.Unmarshal(bs, &spec); err != nil {
			return nil, false, nil, "", err
		}
		specs = append(specs, spec)
	}
	l := &evListener{}
	d := anyToContainer(data)
	ex := pipeline.New(pipeline.WithListener(l), pipeline.WithData(d),
		pipeline.WithExtActions(map[string]pipeline.ActionFactory{"trace": &traceFactory{l: l}}))
	var runErr error
	panicked = guard(func() { _ = ex.Execute(specs[0]); runErr = ex.Execute(specs[1]) })
	return l.evs, runErr != nil, nodeToAny(d), panicked, nil
}

func execCase2(kind string, a1, a2 *pAct, data map[string]any, nontrivial bool) Case {
	evs, failed, final, pn, derr := runTree2(a1, a2, data)
	if derr != nil {
		return Case{Kind: kind, Desc: map[string]any{"tree": a1, "decode_error": derr.Error()}, Fail: []string{"generated tree does not decode: " + derr.Error()}}
	}
	var fail []string
	if pn != "" {
		fail = append(fail, "panic: "+pn)
	}
	return Case{Kind: kind, Desc: map[string]any{"first": a1, "second": a2, "data": data, "events": evStrings(evs), "failed": failed, "final": final},
		Coq:  "CExec2 " + gNode(data) + " " + a1.gallina() + " " + a2.gallina() + " " + gList(evs, func(e pEvent) string { return e.gallina() }) + " " + gBool(failed) + " " + gNode(final),
		Fail: fail, Nontrivial: nontrivial}
}

func execCase(kind string, a *pAct, data map[string]any, nontrivial bool) Case {
	evs, failed, final, pn, derr := runTree(a, data)
	if derr != nil {
		return Case{Kind: kind, Desc: map[string]any{"tree": a, "decode_error": derr.Error()}, Fail: []string{"generated tree does not decode: " + derr.Error()}}
	}
	var fail []string
	if pn != "" {
		fail = append(fail, "panic: "+pn)
	}
	if w := wellNested(evs); w != "" && pn == "" {
		fail = append(fail, "listener events are not well nested: "+w)
	}
	if rerunMismatch != "" {
		fail = append(fail, rerunMismatch)
	}
	if failed && pn == "" {
		// fail-fast: after the first failing OnAfter only OnAfter(.., err) events may follow
		seen := false
		for _, e := range evs {
			if seen && (e.Kind != "A" || !e.Err) {
				fail = append(fail, "something executed after the first failing operation: "+e.String())
				break
			}
			if e.Kind == "A" && e.Err {
				seen = true
			}
		}
	}
	return Case{Kind: kind, Desc: map[string]any{"tree": a, "data": data, "events": evStrings(evs), "failed": failed, "final": final},
		Coq:  "CExec " + gNode(data) + " " + a.gallina() + " " + gList(evs, func(e pEvent) string { return e.gallina() }) + " " + gBool(failed) + " " + gNode(final),
		Fail: fail, Nontrivial: nontrivial}
}

// ---- generator for C12 trees
var ptreeCounter int

func genC12Act(r *rand.Rand, depth, maxDepth, maxFan int, name string, order int) *pAct {
	a := &pAct{Name: name, Order: order}
	switch r.Intn(8) {
	case 0:
		a.When = pCond{Kind: "const", B: false}
		if r.Intn(2) == 0 { // every spelling strconv.ParseBool accepts, and near misses
			a.When = pCond{Kind: "text", S: []string{"0", "f", "F", "FALSE", "False", " false ", "no", "tRUE", "off"}[r.Intn(9)]}
		}
	case 1:
		a.When = pCond{Kind: "const", B: true}
		if r.Intn(2) == 0 {
			a.When = pCond{Kind: "text", S: []string{"1", "t", "T", "TRUE", "True", " true\n", "\t1 "}[r.Intn(7)]}
		}
	case 2:
		a.When = pCond{Kind: "eq", K: "flag", S: "yes"}
	case 4:
		if r.Intn(2) == 0 {
			a.When = pCond{Kind: "padvar", K: []string{"padT", "padF", "padT", "padB"}[r.Intn(4)]}
		}
	case 3:
		if r.Intn(4) == 0 {
			a.When = pCond{Kind: "bad"}
		}
	case 5:
		if r.Intn(2) == 0 {
			a.When = c12ExtraConds[r.Intn(len(c12ExtraConds))]
		}
	}
	if r.Intn(3) != 0 {
		a.Ops = append(a.Ops, pOp{Kind: "set", Data: map[string]any{"k" + fmt.Sprint(r.Intn(4)): name}})
		if r.Intn(4) == 0 { // several actions write the same keys below one path: the later write wins
			a.Ops[len(a.Ops)-1].Path = "cfg"
		}
		if r.Intn(8) == 0 { // an empty (not absent) payload sets nothing and succeeds
			a.Ops[len(a.Ops)-1].Data = map[string]any{}
			if r.Intn(2) == 0 {
				a.Ops[len(a.Ops)-1].Path = "res"
			}
		}
	}
	if r.Intn(3) == 0 {
		a.Ops = append(a.Ops, pOp{Kind: "template", Tmpl: []tpart{{Lit: "v="}, {Var: "k" + fmt.Sprint(r.Intn(4))}}, Path: "t." + name})
	}
	if r.Intn(2) == 0 {
		a.Ops = append(a.Ops, pOp{Kind: "trace", ID: name})
	}
	if r.Intn(3) == 0 {
		a.Ops = append(a.Ops, pOp{Kind: "log", Tmpl: []tpart{{Lit: name + ":"}, {Var: []string{"flag", "k0", "k1", "nope"}[r.Intn(4)]}}})
	}
	if r.Intn(9) == 0 {
		a.Ops = append(a.Ops, pOp{Kind: "abort", Tmpl: []tpart{{Lit: "stop " + name}}})
	}
	r.Shuffle(len(a.Ops), func(i, j int) { a.Ops[i], a.Ops[j] = a.Ops[j], a.Ops[i] })
	if depth < maxDepth {
		n := r.Intn(maxFan + 1)
		orders := r.Perm(7)
		for i := 0; i < n; i++ {
			// order values of different widths and signs: -12, -3, -2, 0, 5, 10, 100 (compared as numbers)
			a.Children = append(a.Children, genC12Act(r, depth+1, maxDepth, maxFan, fmt.Sprintf("%s_%c", name, 'a'+i), []int{-12, -3, -2, 0, 5, 10, 100}[orders[i]]))
		}
	}
	return a
}

func treeStats(a *pAct) (siblings int, falseOrAbort bool) {
	if len(a.Children) >= 2 {
		siblings = len(a.Children)
	}
	if (a.When.Kind == "const" && !a.When.B) || a.When.Kind == "bad" {
		falseOrAbort = true
	}
	if a.When.Kind == "tmpl" && a.When.R != "true" {
		falseOrAbort = true
	}
	if a.When.Kind == "text" {
		if b, err := strconv.ParseBool(strings.TrimSpace(a.When.S)); err != nil || !b {
			falseOrAbort = true
		}
	}
	for _, o := range a.Ops {
		if o.Kind == "abort" {
			falseOrAbort = true
		}
	}
	for _, c := range a.Children {
		s, f := treeStats(c)
		if s > siblings {
			siblings = s
		}
		falseOrAbort = falseOrAbort || f
	}
	return
}

var _ = sort.Strings
var _ = dom.LeafNode
