package main

import (
	"bytes"
	"fmt"
	"gopkg.in/yaml.v3"
	"math/rand"
	"reflect"
	"regexp"
	"sort"
	"strings"

	"github.com/rkosegi/yaml-toolkit/dom"
	"github.com/rkosegi/yaml-toolkit/props"
	"github.com/rkosegi/yaml-toolkit/xform"
)

func gEntries(keys []string, m map[string]any) string {
	return gList(keys, func(k string) string { return "(" + gStr(k) + ", " + gScalar(m[k]) + ")" })
}

func flatPlain(d dom.Container) (map[string]any, map[string]dom.Leaf) {
	fl := d.Flatten()
	out := map[string]any{}
	for k, v := range fl {
		out[k] = normScalar(v.Value())
	}
	return out, fl
}

func hasListInList(v any, inList bool) bool {
	switch x := v.(type) {
	case map[string]any:
		for _, c := range x {
			if hasListInList(c, false) {
				return true
			}
		}
	case []any:
		if inList {
			return true
		}
		for _, c := range x {
			if hasListInList(c, true) {
				return true
			}
		}
	}
	return false
}

func c02Opts() genOpts {
	o := defaultOpts()
	o.keys = []string{"a", "b", "c", "k1", "x-y", "z_9", "0", "12", "A", "cpu%", "-", "_", "café", "ключ", "007", "00", "010"} // (all-digit names that are no canonical indexes are names) // "-" and "_" alone are names like any other
	return o
}

// the document under test, built along one of three routes (chosen by the document itself, so a
// case is reproducible): builder API with fresh leaves, FromMap, FromReader (YAML text) — the
// decoders share one nil leaf among all nulls
// builder route that attaches equal composite values as one shared node instance
func sharedNode(v any, memo map[string]dom.Node) dom.Node {
	switch x := v.(type) {
	case map[string]any:
		key := gNode(v)
		if n, ok := memo[key]; ok && len(x) > 0 {
			return n
		}
		c := dom.Builder().Container()
		for _, k := range sortedKeys(x) {
			c.AddValue(k, sharedNode(x[k], memo))
		}
		memo[key] = c
		return c
	case []any:
		key := gNode(v)
		if n, ok := memo[key]; ok && len(x) > 0 {
			return n
		}
		l := dom.ListNode()
		for _, it := range x {
			l.Append(sharedNode(it, memo))
		}
		memo[key] = l
		return l
	default:
		return dom.LeafNode(v)
	}
}

var c02TwoDigitIdx = regexp.MustCompile(`\[(\d\d+|9)\]`)

func c02Build(doc map[string]any) dom.ContainerBuilder {
	switch len(fmt.Sprint(doc)) % 5 {
	case 4:
		return anyToContainerSealedKids(doc)
	case 3:
		return sharedNode(doc, map[string]dom.Node{}).(dom.ContainerBuilder)
	case 1:
		return dom.Builder().FromMap(doc)
	case 2:
		var b bytes.Buffer
		if err := yaml.NewEncoder(&b).Encode(doc); err == nil {
			if d, err := dom.Builder().FromReader(&b, dom.DefaultYamlDecoder); err == nil && reflect.DeepEqual(normGeneric(nodeToAny(d)), normGeneric(any(doc))) {
				return d
			}
		}
	}
	return anyToContainer(doc)
}

func c02Flatten(doc map[string]any) Case {
	d := c02Build(doc)
	fp, _ := flatPlain(d)
	var fail []string
	if len(fp) != countScalars(doc) {
		fail = append(fail, fmt.Sprintf("|Flatten| = %d, scalar positions = %d", len(fp), countScalars(doc)))
	}
	return Case{Kind: "flatten", Desc: map[string]any{"doc": doc, "flatten": fp},
		Coq: "CFlatten " + gNode(doc) + " " + gEntries(sortedKeys(fp), fp), Fail: fail, Nontrivial: hasListInList(doc, false)}
}

// every flattened path: Lookup, pointer, ParsePath
func c02Address(r *rand.Rand, doc map[string]any) []Case {
	d := c02Build(doc)
	fp, fl := flatPlain(d)
	var out []Case
	keys := sortedKeys(fp)
	if len(keys) == 0 {
		return []Case{c02Flatten(doc)}
	}
	p := keys[r.Intn(len(keys))]
	// positions beyond the tenth item of a list (two-digit indexes) are taken whenever there are any, half of the time
	var twoDigit []string
	for _, k := range keys {
		if c02TwoDigitIdx.MatchString(k) {
			twoDigit = append(twoDigit, k)
		}
	}
	if len(twoDigit) > 0 && r.Intn(2) == 0 {
		p = twoDigit[r.Intn(len(twoDigit))]
	}
	nt := hasListInList(doc, false)
	// Lookup resolves to that very leaf
	{
		var fail []string
		var n dom.Node
		if pn := guard(func() { n = d.Lookup(p) }); pn != "" {
			fail = append(fail, "panic in Lookup: "+pn)
		}
		if n != dom.Node(fl[p]) {
			fail = append(fail, "Lookup(p) is not the very leaf Flatten reported under p")
		}
		out = append(out, Case{Kind: "lookup", Desc: map[string]any{"doc": doc, "path": p},
			Coq: "CLookup " + gNode(doc) + " " + gStr(p) + " " + gOptNode(anyOrNil(n), n != nil), Fail: fail, Nontrivial: nt})
	}
	// JSON pointer translation evaluates to the same leaf
	{
		var fail []string
		var n dom.Node
		if pn := guard(func() { _, n = xform.PointerFromPropPathString(p).Eval(d) }); pn != "" {
			fail = append(fail, "panic in PointerFromPropPathString/Eval: "+pn)
		}
		if n != dom.Node(fl[p]) {
			fail = append(fail, "pointer translation of p does not evaluate to the leaf")
		}
		out = append(out, Case{Kind: "pointer", Desc: map[string]any{"doc": doc, "path": p},
			Coq: "CPointerEval " + gNode(doc) + " " + gStr(p) + " " + gOptNode(anyOrNil(n), n != nil), Fail: fail, Nontrivial: nt})
	}
	// ParsePath: one segment per step
	{
		var fail []string
		var pp props.Path
		if pn := guard(func() { pp = props.ParsePath(p) }); pn != "" {
			fail = append(fail, "panic in ParsePath: "+pn)
		}
		steps := strings.Count(p, ".") + strings.Count(p, "[") + 1
		if len(pp) != steps {
			fail = append(fail, fmt.Sprintf("ParsePath(%q) has %d segments, the path has %d steps", p, len(pp), steps))
		}
		out = append(out, Case{Kind: "parsepath", Desc: map[string]any{"path": p, "segments": fmt.Sprint(pp)},
			Coq: "CParsePath " + gStr(p) + " " + gPsegs(pp), Fail: fail, Nontrivial: strings.Contains(p, "][")})
	}
	return out
}

func anyOrNil(n dom.Node) any {
	if n == nil {
		return nil
	}
	return nodeToAny(n)
}

func gPsegs(pp props.Path) string {
	return gList(pp, func(s props.PathSegment) string {
		if s.IsNum {
			return fmt.Sprintf("(PIdx %d)", s.Index)
		}
		return "(PKey " + gStr(s.Value) + ")"
	})
}

// lookups of paths that are NOT flattened paths (prefixes, neighbours, junk)
func c02LookupOther(r *rand.Rand, doc map[string]any) Case {
	d := c02Build(doc)
	fp, _ := flatPlain(d)
	keys := sortedKeys(fp)
	p := "nope"
	if len(keys) > 0 {
		p = keys[r.Intn(len(keys))]
		switch r.Intn(5) {
		case 0: // proper prefix
			if i := strings.LastIndexAny(p, ".["); i > 0 {
				p = p[:i]
			}
		case 1:
			p = p + ".x"
		case 2:
			p = p + "[0]"
		case 3:
			p = strings.Replace(p, "[0]", "[7]", 1)
		default:
			p = "a." + p
		}
	}
	var n dom.Node
	var fail []string
	if pn := guard(func() { n = d.Lookup(p) }); pn != "" {
		fail = append(fail, "panic in Lookup: "+pn)
	}
	return Case{Kind: "lookup-other", Desc: map[string]any{"doc": doc, "path": p, "found": n != nil},
		Coq: "CLookup " + gNode(doc) + " " + gStr(p) + " " + gOptNode(anyOrNil(n), n != nil), Fail: fail, Nontrivial: n != nil}
}

func c02ParseRaw(raw string) Case {
	var pp props.Path
	var fail []string
	if pn := guard(func() { pp = props.ParsePath(raw) }); pn != "" {
		fail = append(fail, "panic in ParsePath: "+pn)
	}
	return Case{Kind: "parsepath", Desc: map[string]any{"path": raw, "segments": fmt.Sprint(pp)},
		Coq: "CParsePath " + gStr(raw) + " " + gPsegs(pp), Fail: fail, Nontrivial: strings.Contains(raw, "][")}
}

func c02Search(r *rand.Rand, doc map[string]any) Case {
	d := c02Build(doc)
	fp, _ := flatPlain(d)
	var fn dom.SearchValueFunc
	var coqPred string
	var want []string
	var predDesc string
	switch r.Intn(5) {
	case 0:
		var v any = 1
		ks := sortedKeys(fp)
		if len(ks) > 0 {
			v = fp[ks[r.Intn(len(ks))]]
		}
		if _, isOp := v.(Opaque); isOp {
			v = 1
		}
		fn = dom.SearchEqual(v)
		coqPred, predDesc = "(PEq "+gScalar(v)+")", fmt.Sprintf("equals %v", v)
		for k, x := range fp {
			if reflect.DeepEqual(x, v) {
				want = append(want, k)
			}
		}
	case 1:
		fn = func(v any) bool { _, ok := v.(string); return ok }
		coqPred, predDesc = "PIsStr", "is a string"
		for k, x := range fp {
			if _, ok := x.(string); ok {
				want = append(want, k)
			}
		}
	case 2:
		fn = func(any) bool { return true }
		coqPred, predDesc = "PAll", "always"
		want = sortedKeys(fp)
	case 3: // the predicate sees the very value Flatten exposes: its dynamic type too
		fn = func(v any) bool { _, ok := v.(int); return ok }
		coqPred, predDesc = "PIsInt", "is an int"
		for k, x := range fp {
			if _, ok := x.(int); ok {
				want = append(want, k)
			}
		}
	default:
		fn = func(v any) bool { _, ok := v.(float64); return ok }
		coqPred, predDesc = "PIsFlt", "is a float64"
		for k, x := range fp {
			if _, ok := x.(float64); ok {
				want = append(want, k)
			}
		}
	}
	var got []string
	var fail []string
	if pn := guard(func() { got = d.Search(fn) }); pn != "" {
		fail = append(fail, "panic in Search: "+pn)
	}
	got = append([]string{}, got...)
	sort.Strings(got)
	sort.Strings(want)
	if !reflect.DeepEqual(got, append([]string{}, want...)) && !(len(got) == 0 && len(want) == 0) {
		fail = append(fail, "Search(f) != {p | f(Flatten[p])}")
	}
	// Search answers from the document as it is NOW: edit through nested builders (not through the
	// root), then search again
	if pn := guard(func() {
		for j := 0; j < 3; j++ {
			randomEdit(r, d)
		}
		fp2, _ := flatPlain(d)
		var want2 []string
		for k, x := range fp2 {
			if fn(x) {
				want2 = append(want2, k)
			}
		}
		got2 := append([]string{}, d.Search(fn)...)
		sort.Strings(got2)
		sort.Strings(want2)
		if !reflect.DeepEqual(got2, append([]string{}, want2...)) && !(len(got2) == 0 && len(want2) == 0) {
			fail = append(fail, "after edits through nested builders, Search(f) != {p | f(Flatten[p])}")
		}
	}); pn != "" {
		fail = append(fail, "panic in Search after edits: "+pn)
	}
	return Case{Kind: "search", Desc: map[string]any{"doc": doc, "pred": predDesc, "result": got},
		Coq: "CSearch " + coqPred + " " + gNode(doc) + " " + gStrs(got), Fail: fail, Nontrivial: len(got) > 0 && hasListInList(doc, false)}
}

// re-insert every flattened (path, leaf) in a random order into an empty document
func c02Rebuild(r *rand.Rand, doc map[string]any, perm []int) Case {
	d := anyToContainer(doc)
	fp, _ := flatPlain(d)
	keys := sortedKeys(fp)
	if perm == nil {
		perm = r.Perm(len(keys))
	}
	order := make([]string, len(keys))
	for i, j := range perm {
		order[i] = keys[j]
	}
	nb := dom.Builder().Container()
	var fail []string
	if pn := guard(func() {
		for _, k := range order {
			nb.AddValueAt(k, dom.LeafNode(fp[k]))
		}
	}); pn != "" {
		fail = append(fail, "panic while rebuilding: "+pn)
	}
	got, _ := flatPlain(nb)
	if len(fail) == 0 && !reflect.DeepEqual(got, fp) {
		fail = append(fail, "rebuilding from the flattened pairs gives a different Flatten")
	}
	return Case{Kind: "rebuild", Desc: map[string]any{"doc": doc, "order": order, "rebuilt_flatten": got},
		Coq:  "CRebuild " + gEntries(order, fp) + " " + gEntries(sortedKeys(got), got),
		Fail: fail, Nontrivial: hasListInList(doc, false) && len(keys) >= 3}
}

var c02caseQueue []Case

func genNested(r *rand.Rand, o genOpts, depth int) any {
	n := 1 + r.Intn(3)
	l := make([]any, 0, n)
	for i := 0; i < n; i++ {
		switch {
		case depth < 3 && r.Intn(2) == 0:
			l = append(l, genNested(r, o, depth+1))
		case r.Intn(3) == 0:
			l = append(l, map[string]any{o.keys[r.Intn(len(o.keys))]: genScalar(r, o), "n": genNested(r, o, 3)})
		default:
			l = append(l, genScalar(r, o))
		}
	}
	return l
}

// a chain of containers 5-9 levels deep with siblings (a leaf and a small container) at every level
func c02Deep(r *rand.Rand, o genOpts) any {
	var cur any = map[string]any{"size": r.Intn(9), "name": "leaf"}
	for lvl := 5 + r.Intn(5); lvl >= 1; lvl-- {
		m := map[string]any{o.keys[r.Intn(len(o.keys))] + fmt.Sprint(lvl): cur}
		if r.Intn(3) != 0 {
			m["s"] = r.Intn(100)
		}
		if r.Intn(2) == 0 {
			m["t"] = map[string]any{"size": lvl, "u": map[string]any{"size": "x"}}
		}
		if r.Intn(6) == 0 {
			m["l"] = []any{cur, lvl}
		}
		cur = m
	}
	return cur
}

func c02Doc(r *rand.Rand, o genOpts) map[string]any {
	m := genDoc(r, o)
	if r.Intn(4) == 0 {
		m[o.keys[r.Intn(len(o.keys))]] = c02Deep(r, o)
	}
	if r.Intn(6) == 0 { // more than ten items: "x[10]" sorts before "x[2]"
		n := 11 + r.Intn(3)
		l := make([]any, n)
		for i := range l {
			l[i] = i
		}
		m[o.keys[r.Intn(len(o.keys))]] = l
	}
	if r.Intn(5) == 0 { // one composite value under two positions (attached as ONE instance by route 3)
		sub := genNested(r, o, 1)
		m["dupA"] = map[string]any{"x": sub, "k": 1}
		m["dupB"] = map[string]any{"y": sub}
	}
	if r.Intn(2) == 0 {
		m[o.keys[r.Intn(len(o.keys))]] = genNested(r, o, 0)
	}
	if r.Intn(4) == 0 {
		m[o.keys[r.Intn(len(o.keys))]] = map[string]any{o.keys[r.Intn(len(o.keys))]: genNested(r, o, 1)}
	}
	return m
}

func init() {
	register(&Prop{
		ID:   "C02",
		Rule: "documents with path-safe keys (incl. all-digit keys), lists in lists to depth 4, lists of containers, mixed; each document built along one of four routes (builder API, FromMap, FromReader of its YAML text, builder with equal composite values attached as one shared instance); a quarter of the documents contain a 5-9 level chain with siblings at every level, a sixth a list of 11-13 items. kinds: flatten (whole Flatten map as a set + count of scalar positions), lookup (a flattened path: must be pointer-identical to the flattened leaf), lookup-other (prefixes / neighbours / junk paths), pointer (xform.PointerFromPropPathString(p).Eval), parsepath (segments; also adversarial raw strings), search (equals-value / is-string / always; as a set), rebuild (AddValueAt of every flattened pair in a random permutation into an empty document; documents in which every list item contains a scalar). Non-trivial: document has a list inside a list. Distinct by Gallina term. Search predicates include 'is an int' / 'is a float64' (the predicate must see the very value Flatten exposes). A fifth construction route composes the document of sealed parts; two-digit list positions are addressed whenever the document has any. Positions whose index is 9 are taken like two-digit ones. Go-side probes every 96th case: a list of 1100-1600 items, a scalar 70 mappings deep, records nested 36 deep (Flatten count, Lookup, Search, rebuild in random order, FromProperties).",
		Corpus: func() []Case {
			r := rand.New(rand.NewSource(5))
			d1 := map[string]any{"a": []any{[]any{1, 2}, []any{3}}}
			d3 := map[string]any{"a": []any{[]any{[]any{1, 2}, []any{3}}}}
			cs := []Case{c02Flatten(d1)}
			cs = append(cs, c02Address(r, d1)...)
			cs = append(cs, c02Rebuild(r, map[string]any{"a": []any{[]any{1}, []any{2}}}, []int{1, 0}))
			cs = append(cs, c02Rebuild(r, d3, []int{0, 1, 2}))
			cs = append(cs, c02Rebuild(r, d3, []int{2, 1, 0}))
			for _, raw := range []string{"a.b[0][1].c", " .a.b. ", "a[0]", "a[x]", "a[]", "a[1]b[2]", "[0]", "a..b", "", "a[01]", "x[1", "a]b["} {
				cs = append(cs, c02ParseRaw(raw))
			}
			return cs
		},
		Gen: func(r *rand.Rand, tier string, idx int) Case {
			if len(c02caseQueue) > 0 {
				c := c02caseQueue[0]
				c02caseQueue = c02caseQueue[1:]
				return c
			}
			if idx%96 == 11 {
				return c02Large(r, idx/96)
			}
			o := c02Opts()
			switch r.Intn(6) {
			case 0:
				return c02Flatten(c02Doc(r, o))
			case 1:
				cs := c02Address(r, c02Doc(r, o))
				c02caseQueue = append(c02caseQueue, cs[1:]...)
				return cs[0]
			case 2:
				return c02LookupOther(r, c02Doc(r, o))
			case 3:
				return c02Search(r, c02Doc(r, o))
			default:
				o.empties = false
				o.everyItemScalar = true
				doc := c02Doc(r, o)
				return c02Rebuild(r, doc, nil)
			}
		},
	})
}
