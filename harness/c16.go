package main

import (
	"bytes"
	"errors"
	"fmt"
	mprops "github.com/magiconair/properties"
	"math/rand"
	"reflect"
	"strings"

	"github.com/rkosegi/yaml-toolkit/common"
	"github.com/rkosegi/yaml-toolkit/dom"
	"github.com/rkosegi/yaml-toolkit/props"
	"github.com/rkosegi/yaml-toolkit/utils"
)

var c16Segs = []string{"a", "b", "c", "db", "host", "log", "logging", "port", "ports", "x-y", "k_1", "0", "12", "DB", "Host", "Log"}
var c16Vals = []string{"1", "x", "hello", "true", "a b", "v-1", "0.5", "é世", "http//h", "", "80%", "%d %s - done", "100%%", "a%20b", "${a}", "${HOME}", "x${nope}y", "$a {b}", "😀 ok", "clef 𝄞", "𐌰𐌱"}

var c16LongVals = []string{
	// long values (blanks and tabs around byte offsets 80 and 160), and non-ASCII text long enough to cross any read-ahead boundary at either parity
	strings.Repeat("w", 79) + " and  then\tmore", strings.Repeat("w", 80) + "   " + strings.Repeat("v", 77) + "   end", strings.Repeat("n-03.example.org, ", 12),
	strings.Repeat("é", 300), "x" + strings.Repeat("é", 300) + " Košice"}

func c16Key(r *rand.Rand) string {
	n := 1 + r.Intn(3)
	segs := make([]string, n)
	for i := range segs {
		segs[i] = c16Segs[r.Intn(len(c16Segs))]
	}
	return strings.Join(segs, ".")
}

func isDottedPrefix(a, b string) bool {
	return a == b || strings.HasPrefix(b, a+".")
}

func c16GenKV(r *rand.Rand, conflictFree bool) map[string]string {
	kv := map[string]string{}
	n := 1 + r.Intn(6)
	for tries := 0; len(kv) < n && tries < 60; tries++ {
		k := c16Key(r)
		if len(kv) > 0 && r.Intn(2) == 0 {
			// share a dotted prefix / be a textual (not dotted) prefix of an existing key
			for ek := range kv {
				if i := strings.LastIndex(ek, "."); i > 0 {
					k = ek[:i] + "." + c16Segs[r.Intn(len(c16Segs))]
				}
				break
			}
		}
		if !conflictFree && r.Intn(3) == 0 && len(kv) > 0 {
			for ek := range kv {
				if r.Intn(2) == 0 {
					k = ek + "." + c16Segs[r.Intn(len(c16Segs))]
				} else if i := strings.LastIndex(ek, "."); i > 0 {
					k = ek[:i]
				}
				break
			}
		}
		ok := true
		if conflictFree {
			for ek := range kv {
				if isDottedPrefix(ek, k) || isDottedPrefix(k, ek) {
					ok = false
				}
			}
		}
		if ok {
			kv[k] = c16Vals[r.Intn(len(c16Vals))]
			if r.Intn(12) == 0 {
				kv[k] = c16LongVals[r.Intn(len(c16LongVals))]
			}
		}
	}
	return kv
}

func gKV(kv map[string]string) string {
	return gList(sortedKeys(kv), func(k string) string { return "(" + gStr(k) + ", (Leaf (SStr " + gStr(kv[k]) + ")))" })
}

func renderProps(kv map[string]string) string {
	var sb strings.Builder
	for _, k := range sortedKeys(kv) {
		fmt.Fprintf(&sb, "%s=%s\n", k, kv[k])
	}
	return sb.String()
}

func flattenPlain(v any, path string, out map[string]any) {
	switch x := v.(type) {
	case map[string]any:
		for k, c := range x {
			p := k
			if path != "" {
				p = path + "." + k
			}
			flattenPlain(c, p, out)
		}
	default:
		out[path] = v
	}
}

func hasConflict(kv map[string]string) bool {
	for a := range kv {
		for b := range kv {
			if a != b && isDottedPrefix(a, b) {
				return true
			}
		}
	}
	return false
}

func sharesPrefix(kv map[string]string) bool {
	seen := map[string]int{}
	for k := range kv {
		if i := strings.Index(k, "."); i > 0 {
			seen[k[:i]]++
		}
	}
	for _, n := range seen {
		if n >= 2 {
			return true
		}
	}
	return false
}

func toAnyMap(kv map[string]string) map[string]any {
	m := map[string]any{}
	for k, v := range kv {
		m[k] = v
	}
	return m
}

func c16Case(r *rand.Rand, kv map[string]string, which int) Case {
	conflict := hasConflict(kv)
	want := toAnyMap(kv)
	var fail []string
	desc := map[string]any{"kv": kv, "conflicting": conflict}
	nt := sharesPrefix(kv)
	switch which {
	case 0: // utils.Unflatten
		var first any
		pn := guard(func() {
			for i := 0; i < 50; i++ {
				res := utils.Unflatten(toAnyMap(kv))
				if i == 0 {
					first = res
				} else if !reflect.DeepEqual(res, first) {
					fail = append(fail, "Unflatten of the same map gave different results")
					break
				}
			}
		})
		if pn != "" {
			return Case{Kind: "unflatten", Desc: desc, Fail: []string{"panic in Unflatten: " + pn}, Nontrivial: true}
		}
		if !conflict {
			out := map[string]any{}
			flattenPlain(first, "", out)
			if !reflect.DeepEqual(out, want) {
				fail = append(fail, "flattenPlain(Unflatten(kv)) != kv")
			}
		}
		desc["result"] = first
		return Case{Kind: "unflatten", Desc: desc, Coq: "CUnflatten " + gKV(kv) + " " + gNode(first), Fail: fail, Nontrivial: nt}
	case 1: // FromProperties
		var first any
		pn := guard(func() {
			for i := 0; i < 50; i++ {
				res := nodeToAny(dom.Builder().FromProperties(toAnyMap(kv)))
				if i == 0 {
					first = res
				} else if !reflect.DeepEqual(res, first) {
					fail = append(fail, "FromProperties of the same map gave different documents")
					break
				}
			}
		})
		if pn != "" {
			return Case{Kind: "fromprops", Desc: desc, Fail: []string{"panic in FromProperties: " + pn}, Nontrivial: true}
		}
		if !conflict {
			fp, _ := flatPlain(dom.Builder().FromProperties(toAnyMap(kv)))
			if !reflect.DeepEqual(fp, want) {
				fail = append(fail, "Flatten(FromProperties(kv)) != kv")
			}
		}
		desc["result"] = first
		return Case{Kind: "fromprops", Desc: desc, Coq: "CFromProps " + gKV(kv) + " " + gNode(first), Fail: fail, Nontrivial: nt}
	default: // text through props.DecoderFn (and the file-suffix provider), 50 repeated decodes
		text := renderProps(kv)
		var first any
		pn := guard(func() {
			for i := 0; i < 50; i++ {
				dec := props.DecoderFn
				if i%2 == 1 {
					dec = common.DefaultFileDecoderProvider("x.properties")
				}
				d, err := dom.Builder().FromReader(strings.NewReader(text), dec)
				if err != nil {
					fail = append(fail, "decode error: "+err.Error())
					break
				}
				res := nodeToAny(d)
				if i == 0 {
					first = res
				} else if !reflect.DeepEqual(res, first) {
					fail = append(fail, "decoding the same properties text gave different documents")
					break
				}
			}
		})
		if pn != "" {
			return Case{Kind: "decode", Desc: desc, Fail: []string{"panic while decoding: " + pn}, Nontrivial: true}
		}
		if !conflict && len(fail) == 0 {
			d, _ := dom.Builder().FromReader(strings.NewReader(text), props.DecoderFn)
			fp, _ := flatPlain(d)
			if !reflect.DeepEqual(fp, want) {
				fail = append(fail, "Flatten(FromReader(render(kv), props.DecoderFn)) != kv")
			}
		}
		// encoder -> decoder round trip of the flat map, both encoders
		if pn := guard(func() { c16RoundTrips(kv, conflict, want, &fail) }); pn != "" {
			fail = append(fail, "panic in an encoder/decoder round trip: "+pn)
		}
		desc["text"] = text
		desc["result"] = first
		coq := ""
		if first != nil {
			coq = "CDecode " + gKV(kv) + " " + gNode(first)
		}
		return Case{Kind: "decode", Desc: desc, Coq: coq, Fail: fail, Nontrivial: nt}
	}
}

func c16RoundTrips(kv map[string]string, conflict bool, want map[string]any, failp *[]string) {
	fail := *failp
	defer func() { *failp = fail }()
	{
		for ei, encFn := range []dom.EncoderFunc{props.EncoderFn, common.DefaultFileEncoderProvider("y.properties")} {
			// an earlier encode of OTHER content that failed half-way (a writer giving up after a few bytes)
			_ = guard(func() {
				_ = encFn(&failAfterW{n: 3}, map[string]any{"leftover.from.failed.write": "must-not-appear", "z": "1"})
				c0 := dom.Builder().Container()
				c0.AddValue("leftover.dom", dom.LeafNode("must-not-appear"))
				_ = props.DomEncoderFn(&failAfterW{n: 3}, c0)
			})
			var b bytes.Buffer
			if err := encFn(&b, toAnyMap(kv)); err != nil {
				fail = append(fail, fmt.Sprintf("encoder %d failed: %v", ei, err))
				continue
			}
			// a target that gives up somewhere inside the text (at the first byte, in the middle, at the last byte): the
			// encoder says so — a caller that is told "written" reads back the pairs it wrote
			if b.Len() > 0 {
				for _, n := range []int{0, b.Len() / 2, b.Len() - 1} {
					var werr error
					if pn := guard(func() { werr = encFn(&failAfterW{n: n}, toAnyMap(kv)) }); pn != "" {
						fail = append(fail, fmt.Sprintf("encoder %d panicked on a writer failing after %d bytes: %s", ei, n, pn))
					} else if werr == nil {
						fail = append(fail, fmt.Sprintf("encoder %d: writer failing after %d of %d bytes, yet the encoder reports success", ei, n, b.Len()))
					}
				}
			}
			// ... or that refuses ONE write and takes the later ones (a transient fault): still not "written"
			if nl := strings.Count(b.String(), "\n"); nl >= 2 {
				for _, k := range []int{0, nl / 2} {
					var werr error
					w := &failOnceW{k: k}
					if pn := guard(func() { werr = encFn(w, toAnyMap(kv)) }); pn != "" {
						fail = append(fail, fmt.Sprintf("encoder %d panicked on a writer refusing its write no. %d: %s", ei, k, pn))
					} else if werr == nil && w.refused {
						fail = append(fail, fmt.Sprintf("encoder %d: the writer refused write no. %d of about %d, yet the encoder reports success", ei, k, nl))
					}
				}
			}
			if !conflict {
				back := map[string]any{}
				if err := props.DecoderFn(&b, &back); err != nil {
					fail = append(fail, "decode of encoded map failed")
				} else {
					out := map[string]any{}
					flattenPlain(back, "", out)
					if !reflect.DeepEqual(out, want) {
						fail = append(fail, "props.DecoderFn(props.EncoderFn(kv)) != kv")
					}
				}
			}
		}
		{ // DOM encoder variant: a flat container of leaves
			c := dom.Builder().Container()
			for k, v := range kv {
				c.AddValue(k, dom.LeafNode(v))
			}
			var b bytes.Buffer
			if pn := guard(func() {
				if err := props.DomEncoderFn(&b, c); err != nil {
					fail = append(fail, "DomEncoderFn failed")
				}
			}); pn != "" {
				fail = append(fail, "panic in DomEncoderFn: "+pn)
			} else if !conflict {
				back := map[string]any{}
				_ = props.DecoderFn(&b, &back)
				out := map[string]any{}
				flattenPlain(back, "", out)
				if !reflect.DeepEqual(out, want) {
					fail = append(fail, "props.DecoderFn(props.DomEncoderFn(kv)) != kv")
				}
			}
		}
	}
}

func init() {
	// the properties parser reports some errors through a process-wide handler whose default exits the
	// process; a panic instead lets the harness report the input
	mprops.ErrorHandler = mprops.PanicHandler
	register(&Prop{
		ID:   "C16",
		Rule: "finite sets of (dotted key, plain string value incl. the empty string and values containing %), 1-6 keys of 1-3 path-safe segments drawn from a pool with textual-prefix siblings (log/logging, port/ports, db/dbname-like), half conflict-free and half allowed to conflict (a key that is a dotted prefix of another). kinds: unflatten (utils.Unflatten x50), fromprops (Builder().FromProperties x50), decode (properties text through props.DecoderFn and the file-suffix provider x50; encoder->decoder round trips with EncoderFn, the provider's encoder and DomEncoderFn). Go-side: flatten == kv when conflict-free; all 50 repeats identical for every key set. The resulting tree is compared with the Coq model (sorted-key processing). Non-trivial: key set has a shared dotted prefix. Distinct by Gallina term. Values longer than 80 bytes with blanks around offsets 80/160, 600-byte non-ASCII values, segments differing only in letter case. Go-side probe (cases 17, 317, 617, 917): 21000-25000 pairs (more than a mebibyte) through EncoderFn/DecoderFn/FromMap, with keys longer than 100 characters.",
		Corpus: func() []Case {
			return []Case{
				c16Case(nil, map[string]string{"a": "1", "a.b": "2"}, 0), // pinned: order dependent
				c16Case(nil, map[string]string{"a": "1", "a.b": "2"}, 1),
				c16Case(nil, map[string]string{"a": "1", "a.b": "2"}, 2),
				c16Case(nil, map[string]string{"app.log.level": "x", "app.logging.file": "y", "db.host": "h", "dbname": "n"}, 1),
				c16Case(nil, map[string]string{"srv.port.http": "1", "srv.ports": "2"}, 1),
			}
		},
		Gen: func(r *rand.Rand, tier string, idx int) Case {
			if idx%300 == 17 && idx < 1000 {
				return c16Large(r, idx)
			}
			if idx%40 == 9 { // keys of 33 and more segments, with siblings below the same long prefix
				n := 31 + r.Intn(10)
				segs := make([]string, n)
				for i := range segs {
					segs[i] = c16Segs[r.Intn(len(c16Segs))]
				}
				pre := strings.Join(segs, ".")
				kv := map[string]string{pre + ".x.leaf": "deep", pre + ".x.other": "2", pre + ".y": "3", "top": "t"}
				return c16Case(r, kv, idx%3)
			}
			if idx%40 == 29 {
				return c16Tiny(r, idx)
			}
			return c16Case(r, c16GenKV(r, idx%2 == 0), idx%3)
		},
	})
}

// a writer that refuses exactly one Write call (the k-th) and accepts every other one
type failOnceW struct {
	k, n    int
	refused bool
}

func (f *failOnceW) Write(p []byte) (int, error) {
	f.n++
	if f.n-1 == f.k {
		f.refused = true
		return 0, errors.New("write refused once")
	}
	return len(p), nil
}

// texts of fewer than four bytes, the empty one included, through the decoder and through the file-suffix provider:
// exactly the written pairs (Go side only)
func c16Tiny(r *rand.Rand, idx int) Case {
	texts := []struct {
		text string
		want map[string]any
	}{
		{"", map[string]any{}}, {"a", map[string]any{"a": ""}}, {"a=", map[string]any{"a": ""}}, {"\n", map[string]any{}}, {"a=1", map[string]any{"a": "1"}},
		{"a:", map[string]any{"a": ""}}, {"#", map[string]any{}}, {"ab", map[string]any{"ab": ""}}, {"a\n", map[string]any{"a": ""}},
	}
	t := texts[r.Intn(len(texts))]
	var fail []string
	for name, dec := range map[string]dom.DecoderFunc{"props.DecoderFn": props.DecoderFn, "DefaultFileDecoderProvider(x.properties)": common.DefaultFileDecoderProvider("x.properties")} {
		var d dom.ContainerBuilder
		var err error
		if pn := guard(func() { d, err = dom.Builder().FromReader(strings.NewReader(t.text), dec) }); pn != "" {
			fail = append(fail, fmt.Sprintf("%s panicked on %q: %s", name, t.text, pn))
		} else if err != nil {
			fail = append(fail, fmt.Sprintf("%s on the %d-byte text %q: %v", name, len(t.text), t.text, err))
		} else if got := nodeToAny(d); !reflect.DeepEqual(got, any(t.want)) {
			fail = append(fail, fmt.Sprintf("%s on %q gives %v, expected %v", name, t.text, got, t.want))
		}
	}
	// an empty flat map written by the file-suffix encoder reads back through the file-suffix decoder
	var b bytes.Buffer
	if err := common.DefaultFileEncoderProvider("y.properties")(&b, map[string]any{}); err != nil {
		fail = append(fail, "encoding an empty map failed: "+err.Error())
	} else if d, err := dom.Builder().FromReader(&b, common.DefaultFileDecoderProvider("y.properties")); err != nil || len(d.Children()) != 0 {
		fail = append(fail, fmt.Sprintf("an empty map written by the properties encoder does not read back as an empty document (err=%v)", err))
	}
	return Case{Kind: "decode-tiny", Desc: map[string]any{"text": t.text}, Fail: fail, Nontrivial: true, Key: fmt.Sprint("tiny", t.text, idx)}
}
