package main

import (
	"fmt"
	"math/rand"
	"sort"

	"github.com/rkosegi/yaml-toolkit/dom"
)

// ---- plain value generators (map[string]any / []any / nil / bool / int / float64 / string)

var safeKeys = []string{"a", "b", "c", "k1", "x-y", "z_9", "0", "12", "A"}

type genOpts struct {
	keys            []string
	maxDepth        int
	maxFan          int
	nulls           bool // allow nil scalars
	empties         bool // allow empty maps/lists below the root
	listInList      bool
	floats          bool
	everyItemScalar bool // every list item contains at least one scalar
	pointerRoute    bool // documents whose modifications go through the property-path route: plain number kinds, empty names only inside a path
}

func defaultOpts() genOpts {
	return genOpts{keys: safeKeys, maxDepth: 4, maxFan: 3, nulls: true, empties: true, listInList: true, floats: true}
}

func genScalar(r *rand.Rand, o genOpts) any {
	if r.Intn(25) == 0 { // integers beyond 2^53 that collapse when widened to float64, and text that spells a number or a boolean
		return []any{9007199254740993, 9007199254740992, 9223372036854775807, 9223372036854775806, "1", "true", "1.5", "0", 255, 256, 257, 65536, -1}[r.Intn(13)]
	}
	switch r.Intn(7) {
	case 0:
		if o.nulls {
			return nil
		}
		return 0
	case 1:
		return r.Intn(2) == 0
	case 2:
		return r.Intn(5) - 1
	case 3:
		if o.floats {
			return []float64{0.5, 1.5, -2.25, 1e10, 3}[r.Intn(5)]
		}
		return 7
	case 4:
		return []string{"", "x", "hello", "1", "true", "a.b", "x[0]", "${a}", "é世"}[r.Intn(9)]
	default:
		return r.Intn(3)
	}
}

func genMap(r *rand.Rand, o genOpts, depth int) map[string]any {
	m := map[string]any{}
	n := r.Intn(o.maxFan + 1)
	if depth == 0 && n == 0 && r.Intn(4) != 0 {
		n = 1 + r.Intn(o.maxFan)
	}
	if !o.empties && n == 0 {
		n = 1
	}
	for i := 0; i < n; i++ {
		k := o.keys[r.Intn(len(o.keys))]
		m[k] = genVal(r, o, depth+1, false)
	}
	return m
}

func genList(r *rand.Rand, o genOpts, depth int) []any {
	n := r.Intn(o.maxFan + 1)
	if !o.empties && n == 0 {
		n = 1
	}
	l := make([]any, 0, n)
	for i := 0; i < n; i++ {
		l = append(l, genVal(r, o, depth+1, true))
	}
	return l
}

func genVal(r *rand.Rand, o genOpts, depth int, inList bool) any {
	if depth >= o.maxDepth {
		return genScalar(r, o)
	}
	switch r.Intn(6) {
	case 0, 1:
		return genMap(r, o, depth)
	case 2:
		if inList && !o.listInList {
			return genScalar(r, o)
		}
		return genList(r, o, depth)
	default:
		return genScalar(r, o)
	}
}

func genDoc(r *rand.Rand, o genOpts) map[string]any { return genMap(r, o, 0) }

// ---- dom <-> plain, written independently of the toolkit's own AsMap/FromMap

func nodeToAny(n dom.Node) any { return nodeToAnyD(n, 0) }

// depth-limited: a cyclic DOM (a node stored inside itself) must not crash the harness
func nodeToAnyD(n dom.Node, depth int) any {
	if depth > 64 {
		return Opaque{"<deeper than 64 levels: cyclic DOM?>"}
	}
	switch {
	case n == nil:
		return Opaque{"<nil node>"}
	case n.IsContainer():
		m := map[string]any{}
		for k, v := range n.(dom.Container).Children() {
			m[k] = nodeToAnyD(v, depth+1)
		}
		return m
	case n.IsList():
		items := n.(dom.List).Items()
		l := make([]any, 0, len(items))
		for _, it := range items {
			l = append(l, nodeToAnyD(it, depth+1))
		}
		return l
	default:
		return normScalar(n.(dom.Leaf).Value())
	}
}

func normScalar(v any) any {
	switch x := v.(type) {
	case nil, bool, int, float64, string:
		return x
	case int64:
		return int(x)
	case uint64:
		return int(x)
	default:
		return Opaque{fmt.Sprintf("%T:%v", v, v)}
	}
}

// anyToNode builds a DOM with the builder API only (no FromMap), so that decode defects do not
// leak into properties that are not about decoding.
func anyToNode(v any) dom.Node {
	switch x := v.(type) {
	case map[string]any:
		return anyToContainer(x)
	case []any:
		l := dom.ListNode()
		for _, it := range x {
			l.Append(anyToNode(it))
		}
		return l
	default:
		return dom.LeafNode(v)
	}
}

// the same value with every nested mapping and list handed over as its read-only view (Seal()):
// a document may be composed of sealed parts; every read of the library sees through them
func anyToNodeSealed(v any) dom.Node {
	switch x := v.(type) {
	case map[string]any:
		return anyToContainerSealedKids(x).Seal()
	case []any:
		l := dom.ListNode()
		for _, it := range x {
			l.Append(anyToNodeSealed(it))
		}
		return l.Seal()
	default:
		return dom.LeafNode(v)
	}
}

func anyToContainerSealedKids(m map[string]any) dom.ContainerBuilder {
	c := dom.Builder().Container()
	for _, k := range sortedKeys(m) {
		c.AddValue(k, anyToNodeSealed(m[k]))
	}
	return c
}

func anyToContainer(m map[string]any) dom.ContainerBuilder {
	c := dom.Builder().Container()
	for _, k := range sortedKeys(m) {
		c.AddValue(k, anyToNode(m[k]))
	}
	return c
}

func sortedKeys[T any](m map[string]T) []string {
	ks := make([]string, 0, len(m))
	for k := range m {
		ks = append(ks, k)
	}
	sort.Strings(ks)
	return ks
}

// guard runs f and reports a panic as a string.
func guard(f func()) (panicked string) {
	defer func() {
		if e := recover(); e != nil {
			panicked = fmt.Sprint(e)
		}
	}()
	f()
	return ""
}

func sizeOf(v any) int {
	switch x := v.(type) {
	case map[string]any:
		n := 1
		for _, c := range x {
			n += sizeOf(c)
		}
		return n
	case []any:
		n := 1
		for _, c := range x {
			n += sizeOf(c)
		}
		return n
	default:
		return 1
	}
}

// Somebody else in the process merges with other options (the pipeline's mergeFiles template function does:
// AsOne().Merged(ListsMergeAppend())): options belong to the call they are given to, the next merge without options is a
// default merge.  Called before default-strategy merges of C04, C06 and C13.
func mergeElsewhereWithOptions() {
	_ = guard(func() {
		ov := dom.NewOverlayDocument()
		ov.Add("l1", anyToContainer(map[string]any{"l": []any{1, 2, 3}}))
		ov.Add("l2", anyToContainer(map[string]any{"l": []any{9}}))
		_ = ov.Merged(dom.ListsMergeAppend())
		_ = anyToContainer(map[string]any{"l": []any{1}}).Merge(anyToContainer(map[string]any{"l": []any{2}}), dom.ListsMergeAppend())
	})
}
