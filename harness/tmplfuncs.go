package main

import (
	"bytes"
	"fmt"
	"math/rand"
	"os"
	"path/filepath"
	"reflect"
	"sort"
	"strings"

	"github.com/rkosegi/yaml-toolkit/common"
	"github.com/rkosegi/yaml-toolkit/diff"
	"github.com/rkosegi/yaml-toolkit/dom"
	"github.com/rkosegi/yaml-toolkit/pipeline"
	"github.com/rkosegi/yaml-toolkit/utils"
	"gopkg.in/yaml.v3"
)

// ---- the pipeline template functions through which templates reach diff and document sets:
// domdiff (C07) and mergeFiles (C18).  They are unexported; a template rendered by the engine of a
// real executor is the only way in.

func tmplEngine() pipeline.TemplateEngine {
	if c13Engine == nil {
		p := &probeAct{}
		_ = pipeline.New().Execute(p)
		c13Engine = *p.te
	}
	return c13Engine
}

func writeYamlDoc(dir, name string, m map[string]any) (string, error) {
	var b bytes.Buffer
	if err := yaml.NewEncoder(&b).Encode(m); err != nil {
		return "", err
	}
	f := filepath.Join(dir, name)
	return f, os.WriteFile(f, b.Bytes(), 0o644)
}

func loadDoc(file string) (dom.ContainerBuilder, error) {
	f, err := os.Open(file)
	if err != nil {
		return nil, err
	}
	defer f.Close()
	return dom.Builder().FromReader(f, common.DefaultFileDecoderProvider(file))
}

func fmtMods(ms []diff.Modification) string {
	var sb strings.Builder
	for _, m := range ms {
		fmt.Fprintf(&sb, "%s|%s|%v|%v;", m.Type, m.Path, m.Value, m.OldValue)
	}
	return sb.String()
}

// {{ domdiff L R }} inside a template is diff.Diff(L, R): same modifications, same order
func c07DomDiff(r *rand.Rand, idx int, l, rr map[string]any) Case {
	dir := procTmp("tmplfuncs")
	_ = os.MkdirAll(dir, 0o755)
	lf, e1 := writeYamlDoc(dir, fmt.Sprintf("l%d.yaml", idx), l)
	rf, e2 := writeYamlDoc(dir, fmt.Sprintf("r%d.yaml", idx), rr)
	defer os.Remove(lf)
	defer os.Remove(rf)
	if e1 != nil || e2 != nil {
		return Case{Kind: "domdiff", Desc: "cannot write temp files", Fail: []string{fmt.Sprint(e1, e2)}}
	}
	var fail []string
	tmpl := fmt.Sprintf(`{{ range (domdiff (mergeFiles (splitList "," %q)) (mergeFiles (splitList "," %q))) }}{{ .Type }}|{{ .Path }}|{{ .Value }}|{{ .OldValue }};{{ end }}`, lf, rf)
	var got string
	var rerr error
	if pn := guard(func() { got, rerr = tmplEngine().Render(tmpl, map[string]any{}) }); pn != "" {
		fail = append(fail, "panic while rendering domdiff: "+pn)
	}
	if rerr != nil {
		fail = append(fail, "rendering domdiff failed: "+rerr.Error())
	}
	ld, e3 := loadDoc(lf)
	rd, e4 := loadDoc(rf)
	want := ""
	if e3 == nil && e4 == nil {
		want = strings.ReplaceAll(fmtMods(*diff.Diff(ld, rd)), "<nil>", "<no value>")
	}
	if len(fail) == 0 && strings.ReplaceAll(got, "<nil>", "<no value>") != want {
		fail = append(fail, fmt.Sprintf("{{ domdiff L R }} rendered %q, diff.Diff(L,R) is %q", got, want))
	}
	// kinds that are not both containers give the empty list
	if pn := guard(func() {
		s, err := tmplEngine().Render(fmt.Sprintf(`{{ len (domdiff (mergeFiles (splitList "," %q)) nil) }}`, lf), map[string]any{})
		if err == nil && s != "0" {
			fail = append(fail, "domdiff of a container and nil is not empty")
		}
	}); pn != "" {
		fail = append(fail, "panic in domdiff with a nil operand: "+pn)
	}
	return Case{Kind: "domdiff", Desc: map[string]any{"l": l, "r": rr, "rendered": got}, Fail: fail, Nontrivial: want != "", Key: "domdiff" + got + fmt.Sprint(idx)}
}

// {{ mergeFiles (list f1 f2 ...) }} is the merge, in the order given, of the documents in those
// files with lists appended — the full view of a document set holding them
func c18MergeFiles(r *rand.Rand, idx int, docs []map[string]any) Case {
	dir := procTmp("tmplfuncs")
	_ = os.MkdirAll(dir, 0o755)
	var files []string
	var fail []string
	for i, d := range docs {
		nm := fmt.Sprintf("m%d_%d.yaml", idx, i)
		if idx%3 == 0 { // (a look-alike without brackets lies next to it)
			nm = fmt.Sprintf("m%d_[%d].yaml", idx, i)
			_ = os.WriteFile(filepath.Join(dir, fmt.Sprintf("m%d_%d.yaml", idx, i)), []byte("look-alike: true\n"), 0o644)
			defer os.Remove(filepath.Join(dir, fmt.Sprintf("m%d_%d.yaml", idx, i)))
		}
		f, err := writeYamlDoc(dir, nm, d)
		if err != nil {
			return Case{Kind: "mergeFiles", Desc: "cannot write temp files", Fail: []string{err.Error()}}
		}
		files = append(files, f)
		defer os.Remove(f)
	}
	tmpl := fmt.Sprintf(`{{ dom2json (mergeFiles (splitList "," %q)) }}`, strings.Join(files, ","))
	var got string
	var rerr error
	if pn := guard(func() { got, rerr = tmplEngine().Render(tmpl, map[string]any{}) }); pn != "" {
		fail = append(fail, "panic while rendering mergeFiles: "+pn)
	}
	if rerr != nil {
		fail = append(fail, "rendering mergeFiles failed: "+rerr.Error())
	}
	// a listed file that does not exist is an error, not a file to skip
	if idx%4 == 1 {
		missing := fmt.Sprintf(`{{ dom2json (mergeFiles (splitList "," %q)) }}`, strings.Join(append(append([]string{}, files...), filepath.Join(dir, "no-such-file.yaml")), ","))
		var merr error
		if pn := guard(func() { _, merr = tmplEngine().Render(missing, map[string]any{}) }); pn == "" && merr == nil {
			fail = append(fail, "mergeFiles over a list naming a file that does not exist reported no error")
		}
	}
	// expectation: left-to-right Merge with ListsMergeAppend of the loaded documents
	var acc dom.ContainerBuilder = dom.Builder().Container()
	for _, f := range files {
		d, err := loadDoc(f)
		if err != nil {
			fail = append(fail, "control load failed: "+err.Error())
			break
		}
		acc = acc.Merge(d, dom.ListsMergeAppend())
	}
	var wb bytes.Buffer
	_ = acc.Serialize(&wb, dom.DefaultNodeEncoderFn, dom.DefaultJsonEncoder)
	var gv, wv any
	_ = yaml.Unmarshal([]byte(got), &gv)
	_ = yaml.Unmarshal(wb.Bytes(), &wv)
	if len(fail) == 0 && !reflect.DeepEqual(gv, wv) {
		fail = append(fail, fmt.Sprintf("mergeFiles rendered %s, the ordered append-merge of the files is %s", got, wb.String()))
	}
	return Case{Kind: "mergeFiles", Desc: map[string]any{"docs": docs, "rendered": got}, Fail: fail, Nontrivial: len(docs) >= 2, Key: "mergeFiles" + got + fmt.Sprint(idx)}
}

// ---- the remaining template functions are thin wrappers of library functions the properties speak about (or of the Go
// standard library): a template that calls one of them renders what the wrapped function gives
func c13TemplateFuncs(r *rand.Rand, idx int) Case {
	var fail []string
	dir := filepath.Join(procTmp("tmplfuncs"), fmt.Sprintf("tf%d", idx))
	_ = os.MkdirAll(filepath.Join(dir, "sub"), 0o755)
	defer os.RemoveAll(dir)
	_ = os.WriteFile(filepath.Join(dir, "a.yaml"), []byte("a: 1\n"), 0o644)
	_ = os.WriteFile(filepath.Join(dir, "b.yaml"), []byte("b: 2\n"), 0o644)
	o := defaultOpts()
	o.keys = c03Keys
	o.maxDepth = 3
	o.floats = false
	doc := genDoc(r, o)
	flat := map[string]any{}
	for _, k := range []string{"app.name", "app.port", "db.url", "plain", "x.y.z"} {
		if r.Intn(2) == 0 {
			flat[k] = c16Vals[r.Intn(len(c16Vals))]
		}
	}
	render := func(t string, data map[string]any) string {
		var out string
		var err error
		if pn := guard(func() { out, err = tmplEngine().Render(t, data) }); pn != "" {
			fail = append(fail, "panic while rendering "+t+": "+pn)
		} else if err != nil {
			fail = append(fail, "rendering "+t+" failed: "+err.Error())
		}
		return out
	}
	c := anyToContainer(doc)
	data := map[string]any{"doc": c, "plain": doc, "flat": flat, "dir": dir, "empty": "", "nothing": nil, "text": "x"}
	// dom2yaml / dom2properties / toYaml: the text decodes to the document
	var back map[string]any
	if err := yaml.Unmarshal([]byte(render("{{ dom2yaml .doc }}", data)), &back); err != nil || !reflect.DeepEqual(normGeneric(back), normGeneric(doc)) {
		if !(len(doc) == 0 && len(back) == 0) {
			fail = append(fail, fmt.Sprintf("dom2yaml of %v decodes to %v (%v)", doc, back, err))
		}
	}
	back = nil
	if err := yaml.Unmarshal([]byte(render("{{ toYaml .plain }}", data)), &back); err != nil || !reflect.DeepEqual(normGeneric(back), normGeneric(doc)) {
		if !(len(doc) == 0 && len(back) == 0) {
			fail = append(fail, fmt.Sprintf("toYaml of %v decodes to %v (%v)", doc, back, err))
		}
	}
	var wantP bytes.Buffer
	fc := dom.Builder().Container()
	for k, v := range flat {
		fc.AddValue(k, dom.LeafNode(v))
	}
	_ = fc.Serialize(&wantP, dom.DefaultNodeEncoderFn, common.DefaultFileEncoderProvider("x.properties"))
	sortedLines := func(t string) string {
		ls := strings.Split(strings.TrimSuffix(t, "\n"), "\n")
		sort.Strings(ls)
		return strings.Join(ls, "\n")
	}
	// (the properties encoder writes the pairs in map order: compared as sets of lines)
	if got := render("{{ dom2properties .fc }}", map[string]any{"fc": fc}); sortedLines(got) != sortedLines(wantP.String()) {
		fail = append(fail, fmt.Sprintf("dom2properties renders %q, the properties encoder writes %q", got, wantP.String()))
	}
	// unflatten = utils.Unflatten
	wantU, _ := yaml.Marshal(utils.Unflatten(flat))
	var gu, wu any
	_ = yaml.Unmarshal([]byte(render("{{ toYaml (unflatten .flat) }}", data)), &gu)
	_ = yaml.Unmarshal(wantU, &wu)
	if !reflect.DeepEqual(gu, wu) {
		fail = append(fail, fmt.Sprintf("unflatten of %v renders %v, utils.Unflatten gives %v", flat, gu, wu))
	}
	// isEmpty, fileExists, isDir, glob, fileGlob, urlParseQuery, tpl
	for t, want := range map[string]string{
		"{{ isEmpty .empty }}/{{ isEmpty .nothing }}/{{ isEmpty .text }}/{{ isEmpty .flat }}":                       "true/true/false/false",
		`{{ fileExists (printf "%s/a.yaml" .dir) }}/{{ fileExists (printf "%s/none" .dir) }}/{{ fileExists .dir }}`: "true/false/true",
		`{{ isDir .dir }}/{{ isDir (printf "%s/a.yaml" .dir) }}/{{ isDir (printf "%s/none" .dir) }}`:                "true/false/false",
		`{{ len (glob (printf "%s/*.yaml" .dir)) }}/{{ len (fileGlob (printf "%s/*" .dir)) }}`:                      "2/3",
		`{{ index (glob (printf "%s/*.yaml" .dir)) 1 | base }}`:                                                     "b.yaml",
		`{{ (urlParseQuery "a=1&b=x%20y&a=2").Get "b" }}/{{ index (urlParseQuery "a=1&a=2") "a" | len }}`:           "x y/2",
		`{{ tpl "<{{ .text }}>" . }}`: "<x>",
	} {
		if got := render(t, data); got != want {
			fail = append(fail, fmt.Sprintf("%s renders %q, expected %q", t, got, want))
		}
	}
	return Case{Kind: "template-funcs", Desc: map[string]any{"doc": doc, "flat": flat}, Fail: fail, Nontrivial: len(doc) > 0 && len(flat) > 0, Key: fmt.Sprint("tf", idx)}
}

// templateFile: template text from a file, rendered against the data (or the mapping at a path), written to a file
func c13TemplateFile(r *rand.Rand, idx int) Case {
	dir := filepath.Join(procTmp("tmplfuncs"), fmt.Sprintf("tfile%d", idx))
	_ = os.MkdirAll(dir, 0o755)
	defer os.RemoveAll(dir)
	data := map[string]any{"name": "n", "port": 80, "flag": true, "nested": map[string]any{"name": "inner", "x": 1}, "l": []any{"i0"}, "outname": "o"}
	parts := []tpart{}
	for i, n := 0, 1+r.Intn(4); i < n; i++ {
		if r.Intn(2) == 0 {
			parts = append(parts, tpart{Lit: []string{"a", " b\n", "x=", "-"}[r.Intn(4)]})
		} else {
			parts = append(parts, tpart{Var: []string{"name", "port", "flag", "missing", "x"}[r.Intn(5)]})
		}
	}
	tf := filepath.Join(dir, "t.tpl")
	haveTmpl := r.Intn(6) != 0
	if haveTmpl {
		_ = os.WriteFile(tf, []byte(tmplString(parts)), 0o644)
	}
	out := filepath.Join(dir, "out.txt")
	op := &pipeline.TemplateFileOp{File: tf, Output: out}
	coqFile, coqOut := tf, out
	switch r.Intn(8) {
	case 0:
		op.File, coqFile = "", ""
	case 1:
		op.Output, coqOut = "", ""
	case 2: // the names are templates themselves
		op.Output = filepath.Join(dir, "{{ .outname }}ut.txt")
	}
	coqPath := "None"
	if r.Intn(2) == 0 {
		p := []string{"nested", "name", "ghost", "l", "nested.x", ""}[r.Intn(6)]
		op.Path = &p
		coqPath = "(Some " + gStr(p) + ")"
	}
	// an output file left by an earlier run is replaced as a whole
	_ = os.WriteFile(out, []byte(strings.Repeat("stale output of an earlier, longer run\n", 20)), 0o644)
	d := anyToContainer(data)
	var err error
	var fail []string
	if pn := guard(func() { err = pipeline.New(pipeline.WithData(d)).Execute(op) }); pn != "" {
		fail = append(fail, "panic in TemplateFileOp: "+pn)
	}
	after := nodeToAny(d)
	if !reflect.DeepEqual(after, any(data)) {
		fail = append(fail, "templateFile changed the data document")
	}
	obs := "None"
	if err == nil {
		// (the output NAME is rendered against the same scope as the text: below a path that has no "outname" it spells "<no value>")
		if op.Path != nil && strings.Contains(op.Output, "{{") {
			out = filepath.Join(dir, "<no value>ut.txt")
		}
		bs, rerr := os.ReadFile(out)
		if rerr != nil {
			fail = append(fail, "templateFile succeeded but the output file cannot be read: "+rerr.Error())
		}
		obs = "(Some " + gStr(string(bs)) + ")"
	}
	coqT := "None"
	if haveTmpl {
		coqT = "(Some " + gTmpl(parts) + ")"
	}
	return Case{Kind: "template-file", Desc: map[string]any{"template": tmplString(parts), "have_template": haveTmpl, "file": op.File, "output": op.Output, "path": coqPath, "err": fmt.Sprint(err)},
		Coq:  "CTemplateFile " + coqT + " " + gStr(coqFile) + " " + gStr(coqOut) + " " + coqPath + " " + gNode(data) + " " + obs + " " + gNode(after),
		Fail: fail, Nontrivial: err == nil && len(parts) >= 2}
}

// ---- dom.YamlNodeDecoder (behind template(parseAs yaml) and AnyVal): a parsed yaml.Node tree — with anchors, aliases,
// aliases into their own anchor, empty documents — converted to a DOM node, against Model/YamlNode.v
func genYamlFlow(r *rand.Rand, depth int, anchors *[]string, open []string) string {
	pre := ""
	var mine string
	if r.Intn(4) == 0 {
		mine = fmt.Sprintf("a%d", len(*anchors))
		pre = "&" + mine + " "
	}
	// an alias to an anchor defined earlier in the text — or, rarely, to one that is still open (the parser allows it)
	if len(*anchors) > 0 && r.Intn(4) == 0 {
		return "*" + (*anchors)[r.Intn(len(*anchors))]
	}
	if len(open) > 0 && r.Intn(10) == 0 {
		return "*" + open[r.Intn(len(open))]
	}
	open2 := open
	if mine != "" {
		open2 = append(append([]string{}, open...), mine)
	}
	var out string
	switch k := r.Intn(5); {
	case depth >= 3 || k <= 1:
		out = []string{"x", "1", "true", "''", "\"two words\"", "~", "null", "0x1F", "é"}[r.Intn(9)]
	case k == 2:
		n := r.Intn(4)
		parts := make([]string, n)
		for i := range parts {
			parts[i] = genYamlFlow(r, depth+1, anchors, open2)
		}
		out = "[" + strings.Join(parts, ", ") + "]"
	default:
		n := r.Intn(4)
		parts := make([]string, n)
		for i := range parts {
			parts[i] = []string{"a", "b", "c", "a"}[r.Intn(4)] + ": " + genYamlFlow(r, depth+1, anchors, open2)
		}
		out = "{" + strings.Join(parts, ", ") + "}"
	}
	if mine != "" {
		*anchors = append(*anchors, mine)
	}
	return pre + out
}

func gYnode(n *yaml.Node, ids map[*yaml.Node]int) (string, bool) {
	wrap := func(s string) string {
		if id, ok := ids[n]; ok {
			return "(YAnch " + fmt.Sprint(id) + " " + s + ")"
		}
		return s
	}
	switch n.Kind {
	case 0:
		return "YZero", true
	case yaml.ScalarNode:
		return wrap("(YScalar " + gStr(n.Value) + ")"), true
	case yaml.AliasNode:
		id, ok := ids[n.Alias]
		return "(YAlias " + fmt.Sprint(id) + ")", ok
	case yaml.SequenceNode, yaml.DocumentNode:
		parts := make([]string, 0, len(n.Content))
		for _, c := range n.Content {
			s, ok := gYnode(c, ids)
			if !ok {
				return "", false
			}
			parts = append(parts, s)
		}
		if n.Kind == yaml.DocumentNode {
			return "(YDoc [" + strings.Join(parts, "; ") + "])", true
		}
		return wrap("(YSeq [" + strings.Join(parts, "; ") + "])"), true
	case yaml.MappingNode:
		var parts []string
		for i := 0; i+1 < len(n.Content); i += 2 {
			if n.Content[i].Kind != yaml.ScalarNode {
				return "", false
			}
			s, ok := gYnode(n.Content[i+1], ids)
			if !ok {
				return "", false
			}
			parts = append(parts, "("+gStr(n.Content[i].Value)+", "+s+")")
		}
		return wrap("(YMap [" + strings.Join(parts, "; ") + "])"), true
	}
	return "", false
}

func c13YamlNode(r *rand.Rand, idx int) Case {
	var anchors []string
	text := genYamlFlow(r, 0, &anchors, nil) + "\n"
	switch r.Intn(12) {
	case 0:
		text = ""
	case 1:
		text = "# nothing but a comment\n"
	case 2:
		text = "---\n"
	case 3:
		text = "&a [*a, {k: *a}]\n"
	}
	var yn yaml.Node
	if err := yaml.Unmarshal([]byte(text), &yn); err != nil {
		return Case{Kind: "yaml-node", Desc: map[string]any{"text": text, "parse_error": err.Error()}, Key: "yn" + text}
	}
	ids := map[*yaml.Node]int{}
	var walk func(n *yaml.Node)
	walk = func(n *yaml.Node) {
		if n.Kind == yaml.AliasNode && n.Alias != nil {
			if _, ok := ids[n.Alias]; !ok {
				ids[n.Alias] = len(ids)
			}
		}
		for _, c := range n.Content {
			walk(c)
		}
	}
	walk(&yn)
	term, ok := gYnode(&yn, ids)
	if !ok {
		return Case{Kind: "yaml-node", Desc: map[string]any{"text": text, "skipped": "shape outside the model"}, Key: "yn" + text}
	}
	var got dom.Node
	var fail []string
	if pn := guard(func() { got = dom.YamlNodeDecoder()(&yn) }); pn != "" {
		fail = append(fail, "panic in YamlNodeDecoder: "+pn)
	}
	if got == nil {
		fail = append(fail, "YamlNodeDecoder returned no node for a parsed document")
		return Case{Kind: "yaml-node", Desc: map[string]any{"text": text}, Fail: fail, Nontrivial: true, Key: "yn" + text}
	}
	// a converted tree is a tree: edits of one expansion of an alias do not show in another (no shared nodes)
	plain := nodeToAny(got)
	return Case{Kind: "yaml-node", Desc: map[string]any{"text": text, "decoded": plain},
		Coq: "CYamlNode " + term + " " + gNode(plain), Fail: fail, Nontrivial: len(ids) > 0, Key: "yn" + text}
}
