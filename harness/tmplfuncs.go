package main

import (
	"bytes"
	"fmt"
	"math/rand"
	"os"
	"path/filepath"
	"reflect"
	"strings"

	"github.com/rkosegi/yaml-toolkit/common"
	"github.com/rkosegi/yaml-toolkit/diff"
	"github.com/rkosegi/yaml-toolkit/dom"
	"github.com/rkosegi/yaml-toolkit/pipeline"
	"gopkg.in/yaml.v3"
)

// ---- the pipeline template functions through which templates reach diff and document sets:
// domdiff (C07) and mergeFiles (C18).  They are unexported; a template rendered by the engine of a
// real executor is the only way in.

func tmplEngine() pipeline.TemplateEngine {
	if c13Engine == nil {
		p := &probeAct{}
		_ = pipeline.New().Execute(p)
		c13Engine = *p.te
	}
	return c13Engine
}

func writeYamlDoc(dir, name string, m map[string]any) (string, error) {
	var b bytes.Buffer
	if err := yaml.NewEncoder(&b).Encode(m); err != nil {
		return "", err
	}
	f := filepath.Join(dir, name)
	return f, os.WriteFile(f, b.Bytes(), 0o644)
}

func loadDoc(file string) (dom.ContainerBuilder, error) {
	f, err := os.Open(file)
	if err != nil {
		return nil, err
	}
	defer f.Close()
	return dom.Builder().FromReader(f, common.DefaultFileDecoderProvider(file))
}

func fmtMods(ms []diff.Modification) string {
	var sb strings.Builder
	for _, m := range ms {
		fmt.Fprintf(&sb, "%s|%s|%v|%v;", m.Type, m.Path, m.Value, m.OldValue)
	}
	return sb.String()
}

// {{ domdiff L R }} inside a template is diff.Diff(L, R): same modifications, same order
func c07DomDiff(r *rand.Rand, idx int, l, rr map[string]any) Case {
	dir := procTmp("tmplfuncs")
	_ = os.MkdirAll(dir, 0o755)
	lf, e1 := writeYamlDoc(dir, fmt.Sprintf("l%d.yaml", idx), l)
	rf, e2 := writeYamlDoc(dir, fmt.Sprintf("r%d.yaml", idx), rr)
	defer os.Remove(lf)
	defer os.Remove(rf)
	if e1 != nil || e2 != nil {
		return Case{Kind: "domdiff", Desc: "cannot write temp files", Fail: []string{fmt.Sprint(e1, e2)}}
	}
	var fail []string
	tmpl := fmt.Sprintf(`{{ range (domdiff (mergeFiles (splitList "," %q)) (mergeFiles (splitList "," %q))) }}{{ .Type }}|{{ .Path }}|{{ .Value }}|{{ .OldValue }};{{ end }}`, lf, rf)
	var got string
	var rerr error
	if pn := guard(func() { got, rerr = tmplEngine().Render(tmpl, map[string]any{}) }); pn != "" {
		fail = append(fail, "panic while rendering domdiff: "+pn)
	}
	if rerr != nil {
		fail = append(fail, "rendering domdiff failed: "+rerr.Error())
	}
	ld, e3 := loadDoc(lf)
	rd, e4 := loadDoc(rf)
	want := ""
	if e3 == nil && e4 == nil {
		want = strings.ReplaceAll(fmtMods(*diff.Diff(ld, rd)), "<nil>", "<no value>")
	}
	if len(fail) == 0 && strings.ReplaceAll(got, "<nil>", "<no value>") != want {
		fail = append(fail, fmt.Sprintf("{{ domdiff L R }} rendered %q, diff.Diff(L,R) is %q", got, want))
	}
	// kinds that are not both containers give the empty list
	if pn := guard(func() {
		s, err := tmplEngine().Render(fmt.Sprintf(`{{ len (domdiff (mergeFiles (splitList "," %q)) nil) }}`, lf), map[string]any{})
		if err == nil && s != "0" {
			fail = append(fail, "domdiff of a container and nil is not empty")
		}
	}); pn != "" {
		fail = append(fail, "panic in domdiff with a nil operand: "+pn)
	}
	return Case{Kind: "domdiff", Desc: map[string]any{"l": l, "r": rr, "rendered": got}, Fail: fail, Nontrivial: want != "", Key: "domdiff" + got + fmt.Sprint(idx)}
}

// {{ mergeFiles (list f1 f2 ...) }} is the merge, in the order given, of the documents in those
// files with lists appended — the full view of a document set holding them
func c18MergeFiles(r *rand.Rand, idx int, docs []map[string]any) Case {
	dir := procTmp("tmplfuncs")
	_ = os.MkdirAll(dir, 0o755)
	var files []string
	var fail []string
	for i, d := range docs {
		f, err := writeYamlDoc(dir, fmt.Sprintf("m%d_%d.yaml", idx, i), d)
		if err != nil {
			return Case{Kind: "mergeFiles", Desc: "cannot write temp files", Fail: []string{err.Error()}}
		}
		files = append(files, f)
		defer os.Remove(f)
	}
	tmpl := fmt.Sprintf(`{{ dom2json (mergeFiles (splitList "," %q)) }}`, strings.Join(files, ","))
	var got string
	var rerr error
	if pn := guard(func() { got, rerr = tmplEngine().Render(tmpl, map[string]any{}) }); pn != "" {
		fail = append(fail, "panic while rendering mergeFiles: "+pn)
	}
	if rerr != nil {
		fail = append(fail, "rendering mergeFiles failed: "+rerr.Error())
	}
	// expectation: left-to-right Merge with ListsMergeAppend of the loaded documents
	var acc dom.ContainerBuilder = dom.Builder().Container()
	for _, f := range files {
		d, err := loadDoc(f)
		if err != nil {
			fail = append(fail, "control load failed: "+err.Error())
			break
		}
		acc = acc.Merge(d, dom.ListsMergeAppend())
	}
	var wb bytes.Buffer
	_ = acc.Serialize(&wb, dom.DefaultNodeEncoderFn, dom.DefaultJsonEncoder)
	var gv, wv any
	_ = yaml.Unmarshal([]byte(got), &gv)
	_ = yaml.Unmarshal(wb.Bytes(), &wv)
	if len(fail) == 0 && !reflect.DeepEqual(gv, wv) {
		fail = append(fail, fmt.Sprintf("mergeFiles rendered %s, the ordered append-merge of the files is %s", got, wb.String()))
	}
	return Case{Kind: "mergeFiles", Desc: map[string]any{"docs": docs, "rendered": got}, Fail: fail, Nontrivial: len(docs) >= 2, Key: "mergeFiles" + got + fmt.Sprint(idx)}
}
