package main

import (
	"fmt"
	"math/rand"
	"strings"
	"time"

	"github.com/rkosegi/yaml-toolkit/props"
)

// tokens: 0=PRE 1=SUF 2=SEP, >= 3: text characters
type rtok int
type rtoks []rtok

const (
	tPRE rtok = iota
	tSUF
	tSEP
)

var c11Chars = []string{"a", "b", "x", "-", "é"}
var c11Delims = [][3]string{{"${", "}", ":"}, {"<<", ">>", "|"}, {"%(", ")", "="}, {"[[", "]", "::"}, {"@", "#", "~"}, {"«", "»", "→"}}

func (t rtoks) key() string { return fmt.Sprint([]rtok(t)) }

func conc(t rtoks, d [3]string) string {
	var sb strings.Builder
	for _, x := range t {
		if x < 3 {
			sb.WriteString(d[x])
		} else {
			sb.WriteString(c11Chars[x-3])
		}
	}
	return sb.String()
}

// re-tokenise a result string (longest delimiter first; the triples do not overlap)
func tokenize(s string, d [3]string) (rtoks, bool) {
	var out rtoks
	for len(s) > 0 {
		matched := false
		for i := 0; i < 3; i++ {
			if strings.HasPrefix(s, d[i]) {
				out = append(out, rtok(i))
				s = s[len(d[i]):]
				matched = true
				break
			}
		}
		if matched {
			continue
		}
		for i, c := range c11Chars {
			if strings.HasPrefix(s, c) {
				out = append(out, rtok(3+i))
				s = s[len(c):]
				matched = true
				break
			}
		}
		if !matched {
			return nil, false
		}
	}
	return out, true
}

type cyc struct{ body string }

func findEndT(s rtoks) (rtoks, rtoks, bool) {
	nested := 0
	for i, t := range s {
		switch t {
		case tSUF:
			if nested > 0 {
				nested--
			} else {
				return s[:i], s[i+1:], true
			}
		case tPRE:
			nested++
		}
	}
	return nil, nil, false
}

func indexTok(s rtoks, t rtok) int {
	for i, x := range s {
		if x == t {
			return i
		}
	}
	return -1
}

// independent recursive-descent reference over tokens
func resolveT(tbl map[string]rtoks, seen []string, s rtoks, depth int) rtoks {
	if depth > 200 {
		panic("DEPTH")
	}
	var out rtoks
	rest := s
	for {
		i := indexTok(rest, tPRE)
		if i < 0 {
			return append(out, rest...)
		}
		out = append(out, rest[:i]...)
		body, after, ok := findEndT(rest[i+1:])
		if !ok {
			return append(out, rest[i:]...)
		}
		orig := body.key()
		for _, x := range seen {
			if x == orig {
				panic(cyc{orig})
			}
		}
		seen2 := append(append([]string{}, seen...), orig)
		key := resolveT(tbl, seen2, body, depth+1)
		var pv rtoks
		found := false
		if v, ok := tbl[key.key()]; ok {
			pv, found = v, true
		} else if j := indexTok(key, tSEP); j >= 0 {
			if v, ok := tbl[key[:j].key()]; ok {
				pv, found = v, true
			} else {
				pv, found = key[j+1:], true
			}
		}
		if found {
			out = append(out, resolveT(tbl, seen2, pv, depth+1)...)
		} else {
			out = append(out, tPRE)
			out = append(out, body...)
			out = append(out, tSUF)
		}
		rest = after
	}
}

func gToks(t rtoks) string {
	return gList(t, func(x rtok) string {
		switch x {
		case tPRE:
			return "TPre"
		case tSUF:
			return "TSuf"
		case tSEP:
			return "TSep"
		default:
			return fmt.Sprintf("TChr %d", int(x)-3)
		}
	})
}

type c11Table struct {
	keys []rtoks
	vals []rtoks
}

func (t c11Table) gallina() string {
	var parts []string
	for i := range t.keys {
		parts = append(parts, "("+gToks(t.keys[i])+", "+gToks(t.vals[i])+")")
	}
	return "[" + strings.Join(parts, "; ") + "]"
}

var c11Timeouts int

var (
	c11Count   int
	c11Live    = map[int]props.Resolver{}
	c11LiveTbl = map[int]map[string]string{}
)

func c11Resolve(tbl c11Table, in rtoks, di int, nontrivial bool) Case {
	d := c11Delims[di]
	m := map[string]string{}
	tm := map[string]rtoks{}
	tdesc := map[string]string{}
	for i := range tbl.keys {
		m[conc(tbl.keys[i], d)] = conc(tbl.vals[i], d)
		tm[tbl.keys[i].key()] = tbl.vals[i]
		tdesc[conc(tbl.keys[i], d)] = conc(tbl.vals[i], d)
	}
	input := conc(in, d)
	type outcome struct {
		res, res2, res3, res4    string
		panicv, panicv2, panicv3 string
		storeChanged             string
	}
	ch := make(chan outcome, 1)
	c11Count++
	go func() {
		var o outcome
		o.panicv = guard(func() {
			b := props.Builder()
			if di != 0 || c11Count%2 == 0 { // the first triple is the documented default: every second resolver relies on it
				b = b.Prefix(d[0]).Suffix(d[1]).ValueSeparator(d[2])
			}
			o.res = b.LookupFunc(props.MapLookup(m)).MustBuild().Resolve(input)
		})
		// one long-lived resolver per triple, whose lookup function reads a table that changes from
		// call to call (earlier calls may have ended in a cycle panic): same answer as a fresh one
		if c11Live[di] == nil {
			dd := di
			c11Live[di] = props.Builder().Prefix(d[0]).Suffix(d[1]).ValueSeparator(d[2]).LookupFunc(func(k string) *string {
				if v, ok := c11LiveTbl[dd][k]; ok {
					return &v
				}
				return nil
			}).MustBuild()
		}
		c11LiveTbl[di] = m
		o.panicv2 = guard(func() { o.res2 = c11Live[di].Resolve(input) })
		// a lookup function may hand out pointers into its own storage: the resolver only READS what it is given — asked
		// twice it answers twice the same, and the table is as it was
		store := map[string]*string{}
		for k, v := range m {
			vv := v
			store[k] = &vv
		}
		pr := props.Builder().Prefix(d[0]).Suffix(d[1]).ValueSeparator(d[2]).LookupFunc(func(k string) *string { return store[k] }).MustBuild()
		o.panicv3 = guard(func() { o.res3 = pr.Resolve(input); o.res4 = pr.Resolve(input) })
		for k, v := range m {
			if store[k] == nil || *store[k] != v {
				o.storeChanged = fmt.Sprintf("the value of %q was %q and is now %q", k, v, *store[k])
			}
		}
		ch <- o
	}()
	var o outcome
	var fail []string
	limit := 30 * time.Second // generous: a healthy resolve takes microseconds, the machine may be busy
	if c11Timeouts >= 2 {
		limit = 2 * time.Second // already established that it diverges: do not wait long again
	}
	select {
	case o = <-ch:
	case <-time.After(limit):
		c11Timeouts++
		return Case{Kind: "resolve", Desc: map[string]any{"table": tdesc, "input": input, "delims": d}, Fail: []string{"Resolve did not terminate within its time limit (30 s)"}, Nontrivial: true,
			Coq: "CResolve " + tbl.gallina() + " " + gToks(in) + " None"}
	}
	obs := "None"
	desc := map[string]any{"table": tdesc, "input": input, "delims": d}
	implCycle := false
	if o.panicv != "" {
		if strings.HasPrefix(o.panicv, "Circular placeholder reference") {
			implCycle = true
			desc["result"] = "panic: circular reference"
		} else {
			fail = append(fail, "unexpected panic: "+o.panicv)
		}
	} else {
		desc["result"] = o.res
		if ts, ok := tokenize(o.res, d); ok {
			obs = "(Some " + gToks(ts) + ")"
		} else {
			fail = append(fail, "result is not a string over the delimiters and the text alphabet")
		}
	}
	// Go-side reference
	var want rtoks
	refCycle := false
	func() {
		defer func() {
			if e := recover(); e != nil {
				if _, ok := e.(cyc); ok {
					refCycle = true
				} else {
					panic(e)
				}
			}
		}()
		want = resolveT(tm, nil, in, 0)
	}()
	if o.panicv == "" || implCycle {
		if refCycle != implCycle {
			fail = append(fail, fmt.Sprintf("cycle reported: impl=%v reference=%v", implCycle, refCycle))
		} else if !refCycle && conc(want, d) != o.res {
			fail = append(fail, "result differs from the recursive-descent reference: want "+conc(want, d))
		}
	}
	cyc1 := strings.HasPrefix(o.panicv, "Circular placeholder reference")
	cyc2 := strings.HasPrefix(o.panicv2, "Circular placeholder reference")
	if (o.panicv == "" || cyc1) && (cyc1 != cyc2 || (!cyc1 && (o.panicv2 != "" || o.res2 != o.res))) {
		fail = append(fail, fmt.Sprintf("a long-lived resolver (same delimiters, lookup function reading the current table) answered %q / panic %q, a fresh one %q / panic %q", o.res2, o.panicv2, o.res, o.panicv))
	}
	cyc3 := strings.HasPrefix(o.panicv3, "Circular placeholder reference")
	if (o.panicv == "" || cyc1) && (cyc1 != cyc3 || (!cyc1 && (o.panicv3 != "" || o.res3 != o.res || o.res4 != o.res))) {
		fail = append(fail, fmt.Sprintf("a resolver whose lookup function hands out pointers into its own table answered %q then %q / panic %q, a fresh one over a copy %q / panic %q", o.res3, o.res4, o.panicv3, o.res, o.panicv))
	}
	if o.storeChanged != "" {
		fail = append(fail, "resolving wrote into the table the lookup function reads: "+o.storeChanged)
	}
	if c11Count%200 == 1 { // fixed probes outside the token alphabet, once per 200 cases and delimiter triple in turn
		fail = append(fail, c11Probe(di)...)
	}
	if indexTok(in, tPRE) < 0 && o.res != input {
		fail = append(fail, "Resolve(s) != s for s without a prefix")
	}
	return Case{Kind: "resolve", Desc: desc, Coq: "CResolve " + tbl.gallina() + " " + gToks(in) + " " + obs, Fail: fail, Nontrivial: nontrivial,
		Key: fmt.Sprint(di) + tbl.gallina() + gToks(in)}
}

// enumerate token strings over {PRE,SUF,SEP,a,b} in length-lex order
func c11Enum(i int) rtoks {
	alpha := 5
	n, count := 0, 1
	for i >= count {
		i -= count
		count *= alpha
		n++
	}
	t := make(rtoks, n)
	for k := n - 1; k >= 0; k-- {
		t[k] = rtok(i % alpha)
		i /= alpha
	}
	return t
}

func c11GenTemplate(r *rand.Rand, depth int, keys []rtoks) rtoks {
	var out rtoks
	for i, n := 0, r.Intn(4); i <= n; i++ {
		switch r.Intn(7) {
		case 0, 1:
			out = append(out, rtok(3+r.Intn(len(c11Chars))))
		case 2, 3, 4:
			if depth >= 4 {
				out = append(out, rtok(3))
				continue
			}
			out = append(out, tPRE)
			switch r.Intn(4) {
			case 0:
				out = append(out, c11GenTemplate(r, depth+1, keys)...) // nested key template
			case 1:
				out = append(out, rtok(3+r.Intn(len(c11Chars)))) // probably unknown key
			default:
				out = append(out, keys[r.Intn(len(keys))]...)
			}
			if r.Intn(3) == 0 {
				out = append(out, tSEP)
				out = append(out, c11GenTemplate(r, depth+1, keys)...) // default template
			}
			if r.Intn(10) != 0 {
				out = append(out, tSUF) // else: unterminated tail
			}
		case 5:
			out = append(out, tSUF) // stray suffix
		default:
			out = append(out, tSEP) // stray separator
		}
	}
	return out
}

func nestsOrRepeats(t rtoks) bool {
	depth, maxd, count := 0, 0, 0
	for _, x := range t {
		if x == tPRE {
			depth++
			count++
			if depth > maxd {
				maxd = depth
			}
		} else if x == tSUF && depth > 0 {
			depth--
		}
	}
	return maxd >= 2 || count >= 2
}

func init() {
	a, b, x := rtoks{3}, rtoks{4}, rtoks{5}
	fixedTables := []c11Table{
		{keys: []rtoks{a, b}, vals: []rtoks{{4, 4}, {tPRE, 3, tSUF}}},                                // b -> ${a}
		{keys: []rtoks{a, b, {3, tSEP, 4}}, vals: []rtoks{{tPRE, 4, tSUF, 3}, {tPRE, 3, tSUF}, {5}}}, // a <-> b cycle; key "a:b"
	}
	register(&Prop{
		ID:   "C11",
		Rule: "token strings over {prefix, suffix, separator, text chars}: exhaustive in length-lex order (all strings up to length 4 quick / 5 thorough over {PRE,SUF,SEP,a,b}) for two fixed tables (one acyclic with a nested reference, one with a two-key cycle and a key containing the separator), then random templates from the grammar (nesting <= 4, repetition, unknown keys, defaults containing placeholders, unterminated tails, stray suffixes/separators) with random tables over <= 4 keys whose values are templates, single characters or empty; every case under one of 5 non-overlapping delimiter triples (incl. multi-byte, multi-character). Observable: result string (re-tokenised) or 'circular reference' panic; Go-side: independent recursive-descent reference, 30 s divergence timeout. Non-trivial: template nests or repeats a placeholder. Distinct by (triple, table, input). Every second default-triple resolver is built without naming the delimiters; one long-lived resolver per triple (lookup function reading the current table) must answer like the fresh one, also after earlier cycle panics. Every 200th case adds fixed probes: unterminated placeholders ending in the first byte of a longer delimiter, a chain of 40 values, 34 placeholders nested in keys.",
		Corpus: func() []Case {
			t := c11Table{keys: []rtoks{a}, vals: []rtoks{{5}}}
			return []Case{
				c11Resolve(t, rtoks{tPRE, 3, tSUF, 6, tPRE, 3, tSUF}, 0, true),                                                            // ${a}-${a}: pinned defect
				c11Resolve(c11Table{keys: []rtoks{a, b}, vals: []rtoks{{tPRE, 4, tSUF}, {tPRE, 3, tSUF}}}, rtoks{tPRE, 3, tSUF}, 0, true), // true cycle
				c11Resolve(c11Table{keys: []rtoks{{3, tSEP, 4}, a}, vals: []rtoks{x, b}}, rtoks{tPRE, 3, tSEP, 4, tSUF}, 1, true),         // key containing the separator
				c11Resolve(t, rtoks{tPRE, 4, tSEP, tPRE, 3, tSUF, tSUF, tPRE, 3}, 2, true),
			}
		},
		Gen: func(r *rand.Rand, tier string, idx int) Case {
			limit := 781
			if tier == "thorough" {
				limit = 3906
			}
			e := idx - 4
			if e >= 0 && e < 2*limit {
				in := c11Enum(e / 2)
				return c11Resolve(fixedTables[e%2], in, (e/2)%len(c11Delims), nestsOrRepeats(in))
			}
			keys := []rtoks{a, b, x, {3, 4}}
			if r.Intn(4) == 0 {
				keys = append(keys, rtoks{3, tSEP, 4})
			}
			var tbl c11Table
			for _, k := range keys {
				if r.Intn(4) == 0 {
					continue
				}
				tbl.keys = append(tbl.keys, k)
				if r.Intn(8) == 0 {
					tbl.vals = append(tbl.vals, rtoks{}) // a key that is present with the empty value
				} else if r.Intn(3) == 0 {
					tbl.vals = append(tbl.vals, rtoks{rtok(3 + r.Intn(len(c11Chars)))})
				} else {
					tbl.vals = append(tbl.vals, c11GenTemplate(r, 2, keys))
				}
			}
			in := c11GenTemplate(r, 0, keys)
			if r.Intn(3) == 0 {
				// repetition: the same (possibly nested) placeholder text occurs twice
				in = append(append(append(rtoks{}, in...), rtok(3+r.Intn(len(c11Chars)))), in...)
			}
			return c11Resolve(tbl, in, r.Intn(len(c11Delims)), nestsOrRepeats(in))
		},
	})
}
