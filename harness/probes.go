package main

// Go-side probes for shapes that are too large for the evaluation of the model inside the assistant
// (documents of thousands of positions, paths of hundreds of steps, texts of more than a mebibyte):
// the library's own readers are compared with each other and with the plain value.

import (
	"bytes"
	"fmt"
	"math/rand"
	"reflect"
	"strings"

	"github.com/rkosegi/yaml-toolkit/dom"
	"github.com/rkosegi/yaml-toolkit/props"
)

// a list of 1500 items and a scalar 70 (mappings) / 35 x 2 (records in lists) steps below the root:
// Flatten lists every scalar position, Lookup and Search agree with it, and re-inserting the flattened
// pairs in any order rebuilds the same flattened view
func c02Large(r *rand.Rand, idx int) Case {
	doc := map[string]any{}
	which := idx % 3
	switch which {
	case 0:
		n := 1100 + r.Intn(500)
		l := make([]any, n)
		for i := range l {
			if i%7 == 3 {
				l[i] = map[string]any{"id": i, "name": fmt.Sprint("n", i)}
			} else {
				l[i] = i
			}
		}
		doc["hosts"] = l
	case 1:
		var v any = "deep-leaf"
		for i := 0; i < 70; i++ {
			v = map[string]any{fmt.Sprintf("level%d", 69-i): v, "sib": i}
		}
		doc["root"] = v
	default:
		var v any = map[string]any{"name": "leaf-record"}
		for i := 0; i < 36; i++ {
			v = map[string]any{"name": fmt.Sprint("n", i), "children": []any{"x", v}}
		}
		doc["tree"] = v
	}
	var fail []string
	pn := guard(func() {
		d := anyToContainer(doc)
		fp, _ := flatPlain(d)
		if len(fp) != countScalars(doc) {
			fail = append(fail, fmt.Sprintf("|Flatten| = %d, scalar positions = %d", len(fp), countScalars(doc)))
		}
		keys := sortedKeys(fp)
		for j := 0; j < 40 && len(keys) > 0; j++ {
			p := keys[r.Intn(len(keys))]
			if j == 0 {
				p = keys[len(keys)-1]
			}
			n := d.Lookup(p)
			if n == nil || !n.IsLeaf() || !reflect.DeepEqual(normScalar(n.(dom.Leaf).Value()), fp[p]) {
				fail = append(fail, "Lookup("+p+") is not the leaf Flatten reports there")
				break
			}
		}
		if got := d.Search(func(any) bool { return true }); len(got) != len(fp) {
			fail = append(fail, fmt.Sprintf("Search(always) reports %d paths, Flatten %d", len(got), len(fp)))
		}
		// rebuild in a random order
		order := r.Perm(len(keys))
		nd := dom.Builder().Container()
		for _, i := range order {
			nd.AddValueAt(keys[i], dom.LeafNode(fp[keys[i]]))
		}
		fp2, _ := flatPlain(nd)
		if !reflect.DeepEqual(fp, fp2) {
			fail = append(fail, fmt.Sprintf("rebuilding from the %d flattened pairs gives a document with %d flattened pairs (or other values)", len(fp), len(fp2)))
		}
		// the same through FromProperties for the string-valued view
		sm := map[string]interface{}{}
		for k, v := range fp {
			sm[k] = fmt.Sprint(v)
		}
		if pd := dom.Builder().FromProperties(sm); len(pd.Flatten()) != len(sm) {
			fail = append(fail, fmt.Sprintf("FromProperties of %d pairs flattens to %d", len(sm), len(pd.Flatten())))
		}
	})
	if pn != "" {
		fail = append(fail, "panic on a large document: "+pn)
	}
	return Case{Kind: "large", Desc: map[string]any{"shape": []string{"list of >1024 items", "70 nested mappings", "records nested 36 deep in lists"}[which]},
		Fail: fail, Nontrivial: true, Key: fmt.Sprint("large", which, idx)}
}

// properties text of more than a mebibyte: every pair comes back
func c16Large(r *rand.Rand, idx int) Case {
	n := 21000 + r.Intn(4000)
	kv := map[string]interface{}{}
	for i := 0; i < n; i++ {
		kv[fmt.Sprintf("catalogue.svc%05d.endpoint", i)] = fmt.Sprintf("https://svc%05d.example.org/api", i)
	}
	// keys whose dotted spelling is longer than a hundred characters
	long := "configuration-of-the-primary-datasource.connection-pool-settings-for-production.maximum-number-of-idle-connections"
	kv[long+".value"] = "16"
	kv[long+".unit"] = "connections"
	n += 2
	var fail []string
	pn := guard(func() {
		var b bytes.Buffer
		if err := props.EncoderFn(&b, kv); err != nil {
			fail = append(fail, "EncoderFn failed: "+err.Error())
			return
		}
		size := b.Len()
		back := map[string]interface{}{}
		if err := props.DecoderFn(bytes.NewReader(b.Bytes()), &back); err != nil {
			fail = append(fail, fmt.Sprintf("DecoderFn rejected %d bytes of properties text: %v", size, err))
			return
		}
		d := dom.Builder().FromMap(back)
		if got := len(d.Flatten()); got != n {
			fail = append(fail, fmt.Sprintf("%d pairs (%d bytes) written, %d leaves read back", n, size, got))
		}
		last := fmt.Sprintf("catalogue.svc%05d.endpoint", n-3)
		if x := d.Lookup(last); x == nil || !x.IsLeaf() || x.(dom.Leaf).Value() != kv[last] {
			fail = append(fail, "the last pair of a large properties text did not come back")
		}
	})
	if pn != "" {
		fail = append(fail, "panic: "+pn)
	}
	return Case{Kind: "large-text", Desc: map[string]any{"pairs": n}, Fail: fail, Nontrivial: true, Key: fmt.Sprint("large", idx)}
}

var _ = strings.Repeat

// ---------------------------------------------------------------- C11
// (a) an unterminated placeholder whose text ends in the first byte of a longer delimiter stays verbatim;
// (b) a chain of 40 values, each mentioning the next, is not a cycle however long it is
func c11Probe(di int) []string {
	var fail []string
	d := c11Delims[di]
	mk := func(m map[string]string) props.Resolver {
		return props.Builder().Prefix(d[0]).Suffix(d[1]).ValueSeparator(d[2]).LookupFunc(props.MapLookup(m)).MustBuild()
	}
	var tails []string
	for _, dl := range d {
		if len(dl) > 1 {
			tails = append(tails, dl[:1])
		}
	}
	for _, tl := range tails {
		for _, in := range []string{d[0] + "host" + tl, "x" + d[0] + "a" + d[1] + "/" + d[0] + "file" + tl, d[0] + "amount " + tl} {
			var out string
			if pn := guard(func() { out = mk(map[string]string{"a": "A"}).Resolve(in) }); pn != "" {
				fail = append(fail, fmt.Sprintf("Resolve(%q) panicked: %s", in, pn))
			} else if want := strings.Replace(in, d[0]+"a"+d[1], "A", 1); out != want {
				fail = append(fail, fmt.Sprintf("Resolve(%q) = %q, expected %q (an unterminated tail stays verbatim)", in, out, want))
			}
		}
	}
	// the first byte of a longer prefix, alone, inside a default or a key is an ordinary character
	if len(d[0]) > 1 {
		in := d[0] + "fee" + d[2] + d[0][:1] + "5" + d[1] + " and " + d[0] + "cost" + d[0][:1] + "usd" + d[1]
		want := d[0][:1] + "5 and 7"
		var out string
		if pn := guard(func() { out = mk(map[string]string{"cost" + d[0][:1] + "usd": "7"}).Resolve(in) }); pn != "" {
			fail = append(fail, fmt.Sprintf("Resolve(%q) panicked: %s", in, pn))
		} else if out != want {
			fail = append(fail, fmt.Sprintf("Resolve(%q) = %q, expected %q", in, out, want))
		}
	}
	chain := map[string]string{}
	for i := 0; i < 40; i++ {
		chain[fmt.Sprint("stage", i)] = "+" + d[0] + fmt.Sprint("stage", i+1) + d[1] + "-"
	}
	chain["stage40"] = "end"
	var out string
	want := strings.Repeat("+", 40) + "end" + strings.Repeat("-", 40)
	if pn := guard(func() { out = mk(chain).Resolve(d[0] + "stage0" + d[1]) }); pn != "" {
		fail = append(fail, "a chain of 40 values, each mentioning the next, panicked: "+pn)
	} else if out != want {
		fail = append(fail, fmt.Sprintf("a chain of 40 values resolved to %q", out))
	}
	// 34 placeholders nested in keys
	nested := "k"
	tbl := map[string]string{"k": "0"}
	for i := 0; i < 34; i++ {
		nested = "k" + d[0] + nested + d[1]
		tbl["k"+fmt.Sprint(i%10)] = fmt.Sprint((i + 1) % 10)
	}
	if pn := guard(func() { _ = mk(tbl).Resolve(d[0] + nested + d[1]) }); pn != "" {
		fail = append(fail, "34 placeholders nested in keys panicked: "+pn)
	}
	// placeholders whose text between prefix and suffix is long: a long default, a default made of many placeholders, a long key
	long := strings.Repeat("jdbc:postgresql://db.example.org:5432/", 9) // 342 bytes
	longKey := strings.Repeat("segment.", 40) + "end"                   // 323 bytes
	many := strings.Repeat(d[0]+"a"+d[1], 100)
	for _, c := range [][2]string{
		{d[0] + "url" + d[2] + long + d[1] + "|" + d[0] + "a" + d[1], long + "|A"},
		{d[0] + "nope" + d[2] + many + d[1] + "!", strings.Repeat("A", 100) + "!"},
		{"_" + d[0] + longKey + d[1] + "_" + d[0] + "a" + d[1], "_V_A"},
		{d[0] + "a" + d[1] + strings.Repeat("x", 600) + d[0] + "a" + d[1], "A" + strings.Repeat("x", 600) + "A"},
		{d[0] + "nope" + d[2] + strings.Repeat("y", 255-len(d[2])-4) + d[1], strings.Repeat("y", 255-len(d[2])-4)},
		{d[0] + "nope" + d[2] + strings.Repeat("y", 256) + d[1], strings.Repeat("y", 256)},
		{d[0] + "nope" + d[2] + strings.Repeat("y", 70000) + d[1], strings.Repeat("y", 70000)},
	} {
		var out string
		if pn := guard(func() { out = mk(map[string]string{"a": "A", longKey: "V"}).Resolve(c[0]) }); pn != "" {
			fail = append(fail, fmt.Sprintf("Resolve of a %d-byte placeholder panicked: %s", len(c[0]), pn))
		} else if out != c[1] {
			fail = append(fail, fmt.Sprintf("Resolve(%.60q… %d bytes) = %.60q… (%d bytes), expected %.60q… (%d bytes)", c[0], len(c[0]), out, len(out), c[1], len(c[1])))
		}
	}
	// a lookup function that reads a document by path: the known keys are the paths of its leaves and nothing else
	doc := anyToContainer(map[string]any{"host": "localhost", "suffix": "", "app": map[string]any{"name": "demo"}})
	byPath := props.Builder().Prefix(d[0]).Suffix(d[1]).ValueSeparator(d[2]).LookupFunc(func(k string) *string {
		if n := doc.Lookup(k); n != nil && n.IsLeaf() {
			v := fmt.Sprint(n.(dom.Leaf).Value())
			return &v
		}
		return nil
	}).MustBuild()
	ph := func(body string) string { return d[0] + body + d[1] }
	for _, c := range [][2]string{
		{ph("host"), "localhost"}, {ph("app.name"), "demo"},
		{ph("host."), ph("host.")}, {ph(".host"), ph(".host")}, {ph("app..name"), ph("app..name")},
		{ph("host." + d[2] + "dflt"), "dflt"}, {ph("app.name." + ph("suffix")), ph("app.name." + ph("suffix"))},
		{ph("app." + ph("nope"+d[2]+"name")), "demo"}, {ph("app"), ph("app")},
	} {
		var out string
		if pn := guard(func() { out = byPath.Resolve(c[0]) }); pn != "" {
			fail = append(fail, fmt.Sprintf("Resolve(%q) over a document panicked: %s", c[0], pn))
		} else if out != c[1] {
			fail = append(fail, fmt.Sprintf("Resolve(%q) with a lookup function reading a document by path = %q, expected %q", c[0], out, c[1]))
		}
	}
	return fail
}
