package main

import (
	"bytes"
	"fmt"
	"math/rand"
	"reflect"
	"sort"
	"strings"
	"sync"

	"github.com/rkosegi/yaml-toolkit/dom"
)

func fieldIsNil(n dom.Node, name string) bool {
	v := reflect.ValueOf(n)
	for v.Kind() == reflect.Ptr || v.Kind() == reflect.Interface {
		v = v.Elem()
	}
	f := v.FieldByName(name)
	if !f.IsValid() {
		return false
	}
	return f.IsNil()
}

// the document with its allocation flags (is the children map / items slice nil?)
func gMnode(n dom.Node) string {
	switch {
	case n.IsContainer():
		ch := n.(dom.Container).Children()
		var parts []string
		for _, k := range sortedKeys(ch) {
			parts = append(parts, "("+gStr(k)+", "+gMnode(ch[k])+")")
		}
		return "(MCon " + gBool(!fieldIsNil(n, "children")) + " [" + strings.Join(parts, "; ") + "])"
	case n.IsList():
		var parts []string
		for _, it := range n.(dom.List).Items() {
			parts = append(parts, gMnode(it))
		}
		return "(MList " + gBool(!fieldIsNil(n, "items")) + " [" + strings.Join(parts, "; ") + "])"
	default:
		return "(MLeaf " + gScalar(normScalar(n.(dom.Leaf).Value())) + ")"
	}
}

// documents with empty containers and empty lists at any depth, along different construction routes
func c20Doc(r *rand.Rand) (dom.Container, string) {
	o := defaultOpts()
	o.keys = []string{"a", "b", "c", "e"}
	m := genDoc(r, o)
	m["e"] = map[string]any{} // an empty container below the root
	if r.Intn(2) == 0 {
		m["l"] = []any{map[string]any{}, []any{}, 1}
	}
	composite := r.Intn(4) == 0
	if composite {
		// a leaf may hold any Go value, also a composite one the DOM does not interpret (a YAML-style map with non-string
		// keys, holding a slice of such maps): reading the document reads that value too, it does not rewrite it
		m["opaque"] = map[any]any{"k": []any{map[any]any{1: "x"}, map[any]any{true: []any{"y"}}}, 2: "two"}
	}
	switch r.Intn(7) {
	case 0:
		return anyToContainer(m), "builder"
	case 1:
		return dom.Builder().FromMap(m), "FromMap"
	case 2:
		var b bytes.Buffer
		_ = dom.DefaultYamlEncoder(&b, m)
		d, err := dom.Builder().FromReader(&b, dom.DefaultYamlDecoder)
		if err != nil {
			return dom.Builder().FromMap(m), "FromMap"
		}
		return d, "loaded"
	case 3:
		return dom.Builder().FromMap(m).Merge(dom.Builder().FromMap(genDoc(r, o))), "merged"
	case 4:
		return dom.Builder().FromMap(m).Clone().(dom.Container), "cloned"
	case 5:
		return dom.Builder().FromMap(m).Seal(), "sealed"
	default:
		return dom.Builder().Container().Seal(), "empty-sealed"
	}
}

type c20Read struct {
	desc string
	coq  string
	run  func(d dom.Container) string // returns the observation as a Gallina robs
}

func c20GenRead(r *rand.Rand, d dom.Container) c20Read {
	plain := nodeToAny(d).(map[string]any)
	path := genPathStr(r)
	if p, ok := existingPath(r, plain, false); ok && r.Intn(3) != 0 {
		path = p
	}
	name := []string{"a", "b", "e", "zz", "l[0]", "l"}[r.Intn(6)]
	switch r.Intn(9) {
	case 0:
		return c20Read{"Child(" + name + ")", "RChild " + gStr(name), func(d dom.Container) string {
			n := d.Child(name)
			return "ONode " + gOptNode(anyOrNil(n), n != nil)
		}}
	case 1:
		return c20Read{"Children()", "RChildren", func(d dom.Container) string {
			return "OStrs " + gStrs(sortedKeys(d.Children()))
		}}
	case 2:
		return c20Read{"Lookup(" + path + ")", "RLookup " + gStr(path), func(d dom.Container) string {
			n := d.Lookup(path)
			return "ONode " + gOptNode(anyOrNil(n), n != nil)
		}}
	case 3:
		return c20Read{"Flatten()", "RFlatten", func(d dom.Container) string {
			fp, _ := flatPlain(d)
			return "OFlat " + gEntries(sortedKeys(fp), fp)
		}}
	case 4:
		return c20Read{"Search(isString)", "RSearch PIsStr", func(d dom.Container) string {
			ps := d.Search(func(v any) bool { _, ok := v.(string); return ok })
			ps = append([]string{}, ps...)
			sort.Strings(ps)
			return "OStrs " + gStrs(ps)
		}}
	case 5:
		return c20Read{"AsMap()", "RAsMap", func(d dom.Container) string { return "ODoc " + gNode(normGeneric(d.AsMap())) }}
	case 6:
		if hasOpaque(plain) { // (the harness's plain view cannot rebuild an uninterpreted leaf value: Serialize instead)
			return c20Read{"Serialize(json) of a document with a composite leaf value", "RAsMap", func(d dom.Container) string {
				var b bytes.Buffer
				_ = d.Serialize(&b, dom.DefaultNodeEncoderFn, dom.DefaultJsonEncoder)
				_ = d.Serialize(&b, dom.DefaultNodeEncoderFn, dom.DefaultYamlEncoder)
				return "ODoc " + gNode(normGeneric(d.AsMap()))
			}}
		}
		other := deepCopy(plain)
		if r.Intn(2) == 0 {
			other = mutateVal(r, other, defaultOpts())
		}
		return c20Read{"Equals(other)", "REquals " + gNode(other), func(d dom.Container) string {
			return "OBool " + gBool(d.Equals(anyToNode(other)))
		}}
	case 7:
		other := []any{map[string]any{}, []any{}, 1}[r.Intn(3)]
		return c20Read{"SameAs(other)", "RSameAs " + gNode(other), func(d dom.Container) string {
			return "OBool " + gBool(d.SameAs(anyToNode(other)))
		}}
	default:
		return c20Read{"Clone()", "RClone", func(d dom.Container) string { return "ODoc " + gNode(nodeToAny(d.Clone())) }}
	}
}

func c20Case(r *rand.Rand) Case {
	d, route := c20Doc(r)
	rdop := c20GenRead(r, d)
	mn := gMnode(d)
	before := dom.VerifDump(d)
	var obs string
	var fail []string
	if pn := guard(func() { obs = rdop.run(d) }); pn != "" {
		return Case{Kind: "read", Desc: map[string]any{"route": route, "read": rdop.desc, "panic": pn}, Fail: []string{"panic in " + rdop.desc + ": " + pn}, Nontrivial: true}
	}
	after := dom.VerifDump(d)
	unchanged := before == after
	if !unchanged {
		fail = append(fail, rdop.desc+" modified the representation of the document (route "+route+")")
	}
	// further reads that have no counterpart in the model: serialisation and list accessors
	if pn := guard(func() {
		var b bytes.Buffer
		_ = d.Serialize(&b, dom.DefaultNodeEncoderFn, dom.DefaultYamlEncoder)
		for _, c := range d.Children() {
			if l, ok := c.(dom.List); ok {
				_ = l.Items()
				_ = l.Size()
				_ = l.AsSlice()
			}
		}
	}); pn != "" {
		fail = append(fail, "panic in Serialize/list accessors: "+pn)
	}
	if dom.VerifDump(d) != after {
		fail = append(fail, "Serialize or a list accessor modified the representation of the document")
	}
	// slices handed out by Items() / AsSlice() belong to the caller too — also those of the read-only
	// view of a list: overwriting, reordering or appending to them is not a write to d
	if pn := guard(func() {
		var visit func(n dom.Node)
		visit = func(n dom.Node) {
			if c, ok := n.(dom.Container); ok {
				for _, ch := range c.Children() {
					visit(ch)
				}
				return
			}
			l, ok := n.(dom.List)
			if !ok {
				return
			}
			views := []dom.List{l}
			if lb, ok := n.(dom.ListBuilder); ok {
				views = append(views, lb.Seal())
			}
			for _, v := range views {
				wantLen := v.Size()
				it1, it2 := v.Items(), v.Items()
				it1 = append(it1, dom.LeafNode("reader-1"))
				it2 = append(it2, dom.LeafNode("reader-2"))
				if len(it1) > wantLen && it1[wantLen].(dom.Leaf).Value() != "reader-1" {
					fail = append(fail, "two readers appending to their own Items() results overwrote each other")
				}
				for i := range it1 {
					it1[i] = dom.LeafNode("scribble")
				}
				_ = it2
				sl := v.AsSlice()
				for i := range sl {
					sl[i] = "scribble"
				}
				if v.Size() != wantLen {
					fail = append(fail, "writing into the slice returned by Items() changed the size of the list")
				}
			}
			for _, ch := range l.Items() {
				visit(ch)
			}
		}
		visit(d)
	}); pn != "" {
		fail = append(fail, "panic around Items(): "+pn)
	}
	if dom.VerifDump(d) != after {
		fail = append(fail, "writing into the slice returned by Items()/AsSlice() modified the representation of the document")
	}
	// plain values handed out by AsMap belong to the caller: scribbling on them (also inside empty
	// maps and lists) is not a write to d, nor to any other document
	if pn := guard(func() {
		want := normGeneric(d.AsMap())
		scribble(d.AsMap())
		other := dom.Builder().FromMap(map[string]any{"e": map[string]any{}, "l": []any{map[string]any{}}})
		if got := normGeneric(d.AsMap()); !reflect.DeepEqual(got, want) {
			fail = append(fail, "writing into the value returned by AsMap() changed what AsMap() returns afterwards")
		}
		if got := normGeneric(other.AsMap()); !reflect.DeepEqual(got, normGeneric(map[string]any{"e": map[string]any{}, "l": []any{map[string]any{}}})) {
			fail = append(fail, "writing into the value returned by AsMap() leaked into another document")
		}
	}); pn != "" {
		fail = append(fail, "panic around AsMap: "+pn)
	}
	if dom.VerifDump(d) != after {
		fail = append(fail, "writing into the value returned by AsMap() modified the representation of the document")
	}
	// the result of a Merge is a new document: finishing it — overwriting its top-level scalars (nulls
	// included) through the ordinary AddValue — is not a write to the operand
	if pn := guard(func() {
		res := dom.Builder().Container().Merge(d)
		overwriteScalars(res, 0)
	}); pn != "" {
		fail = append(fail, "panic while overwriting scalars of a Merge result: "+pn)
	}
	if dom.VerifDump(d) != after {
		fail = append(fail, "overwriting scalars in the result of {}.Merge(d) modified the representation of d")
	}
	// a clone is a private copy: editing it (at any depth, lists inside lists included) is not a write to d
	if pn := guard(func() {
		cl := d.Clone()
		for j := 0; j < 8; j++ {
			randomEdit(r, cl)
		}
	}); pn != "" {
		fail = append(fail, "panic while editing a clone: "+pn)
	}
	if dom.VerifDump(d) != after {
		fail = append(fail, "editing a clone modified the representation of the original document")
	}
	return Case{Kind: "read", Desc: map[string]any{"route": route, "read": rdop.desc, "doc": nodeToAny(d), "unchanged": unchanged},
		Coq: "CRead " + mn + " (" + rdop.coq + ") (" + obs + ") " + gBool(unchanged), Fail: fail,
		Nontrivial: strings.Contains(mn, "MCon false") || strings.Contains(mn, "MList false")}
}

// write into every map and list of a plain value
// overwrite every top-level scalar child of a document under construction with a fresh leaf
func overwriteScalars(cb dom.ContainerBuilder, depth int) {
	for k, ch := range cb.Children() {
		if strings.ContainsAny(k, ".[]") || k == "" {
			continue
		}
		switch x := ch.(type) {
		case dom.ContainerBuilder:
			if depth < 0 { // (nested containers of a merge result are shared with its operands on the unchanged tree: top level only)
				overwriteScalars(x, depth+1)
			}
		case dom.Leaf:
			cb.AddValue(k, dom.LeafNode("overwritten-by-the-reader"))
		}
	}
}

func scribble(v any) {
	switch x := v.(type) {
	case map[string]any:
		for _, c := range x {
			scribble(c)
		}
		x["scribble"] = 1
	case []any:
		for i, c := range x {
			scribble(c)
			if _, isMap := c.(map[string]any); !isMap {
				x[i] = "scribble"
			}
		}
	}
}

// overlay reads: Lookup / LookupAny / Search / Merged / Layers / Walk / Serialize / LayerNames
func c20Overlay(r *rand.Rand) Case {
	o := defaultOpts()
	o.keys = []string{"a", "b", "c"}
	ov := dom.NewOverlayDocument()
	var prev map[string]any
	for i, n := 0, 1+r.Intn(3); i < n; i++ {
		m := genDoc(r, o)
		if prev != nil && r.Intn(2) == 0 { // a later layer overriding parts of the previous one: shared structure at every depth
			m = deepCopy(prev).(map[string]any)
			for j := 0; j < 3; j++ {
				if mm, ok := mutateVal(r, m, o).(map[string]any); ok {
					m = mm
				}
			}
		}
		m["e"] = map[string]any{}
		m["deep"] = map[string]any{"x": map[string]any{"y": map[string]any{fmt.Sprintf("k%d", i): i, "shared": i}, "l": []any{[]any{i, 2}, []any{3}}}}
		prev = m
		ov.Add(fmt.Sprintf("l%d", i), dom.Builder().FromMap(m))
		if r.Intn(4) == 0 { // a layer that holds nothing (yet), among the others
			ov.Add(fmt.Sprintf("empty%d", i), dom.Builder().Container())
		}
	}
	// a value that occurs in every layer: every reader is told about its places in the same order
	// (within one layer the places come in no particular order; the LAYERS come in the order they were added)
	coordsText := func(cs dom.Coordinates) string {
		var order []string
		per := map[string][]string{}
		for _, c := range cs {
			if len(order) == 0 || order[len(order)-1] != c.Layer() {
				order = append(order, c.Layer())
			}
			per[c.Layer()] = append(per[c.Layer()], c.Path())
		}
		var sb strings.Builder
		for _, l := range order {
			sort.Strings(per[l])
			sb.WriteString(l + ":" + strings.Join(per[l], ",") + ";")
		}
		return sb.String()
	}
	searchOrder := coordsText(ov.Search(dom.SearchEqual(2)))
	before := dom.VerifDump(ov)
	var fail []string
	reads := []struct {
		name string
		f    func()
	}{
		{"Lookup", func() { _ = ov.Lookup("l0", "a.b"); _ = ov.Lookup("nosuchlayer", "a") }},
		{"LookupAny", func() { _ = ov.LookupAny("a.b"); _ = ov.LookupAny("e") }},
		{"Search", func() {
			_ = ov.Search(dom.SearchEqual(1))
			for k := 0; k < 6; k++ {
				if again := coordsText(ov.Search(dom.SearchEqual(2))); again != searchOrder {
					fail = append(fail, "OverlayDocument.Search of an untouched overlay answers "+again+" after it answered "+searchOrder)
					break
				}
			}
		}},
		{"Merged", func() { _ = ov.Merged(); _ = ov.Merged(dom.ListsMergeAppend()) }},
		{"Layers", func() { _ = ov.Layers() }},
		{"LayerNames", func() {
			ns := ov.LayerNames() // documented to be a copy: reordering or overwriting it is the caller's business
			for i, j := 0, len(ns)-1; i < j; i, j = i+1, j-1 {
				ns[i], ns[j] = ns[j], ns[i]
			}
			if len(ns) > 0 {
				ns[0] = "overwritten"
			}
		}},
		{"Walk", func() { ov.Walk(func(l, p string, parent, n dom.Node) bool { return true }) }},
		{"Serialize", func() { var b bytes.Buffer; _ = ov.Serialize(&b, dom.DefaultNodeEncoderFn, dom.DefaultYamlEncoder) }},
		{"Merged+Serialize", func() {
			_ = ov.Merged()
			var b bytes.Buffer
			_ = ov.Serialize(&b, dom.DefaultNodeEncoderFn, dom.DefaultJsonEncoder)
			_ = ov.Merged()
		}},
		{"edit-a-snapshot", func() {
			// what Layers() and Clone() hand out is a copy: editing it must not reach the overlay
			for _, l := range ov.Layers() {
				if cl, ok := l.Clone().(dom.ContainerBuilder); ok {
					for j := 0; j < 6; j++ {
						randomEdit(r, cl)
					}
				}
				if lb, ok := l.(dom.ContainerBuilder); ok {
					for j := 0; j < 6; j++ {
						randomEdit(r, lb)
					}
				}
				// ... also below the root of the snapshot (whatever the root itself allows)
				for _, ch := range l.Children() {
					if cb, ok := ch.(dom.ContainerBuilder); ok {
						for j := 0; j < 3; j++ {
							randomEdit(r, cb)
						}
						cb.AddValue("written-into-a-snapshot", dom.LeafNode(1))
					}
				}
			}
		}},
		{"LookupAny-repeated", func() {
			// the answer comes from the first layer (in order of creation) that has the path: every time
			first := ov.Lookup("l0", "deep.x.y.shared")
			for j := 0; j < 24; j++ {
				if n := ov.LookupAny("deep.x.y.shared"); n == nil || first == nil || !n.Equals(first) {
					fail = append(fail, "LookupAny did not answer from the first layer that has the path")
					break
				}
			}
		}},
		{"own-the-merged-view", func() {
			// the merged view is the reader's own structure (also for an overlay of ONE layer): adding, removing
			// and overwriting at its top level is not a write to the overlay
			for _, mv := range []dom.Container{ov.Merged(), ov.Merged(dom.ListsMergeAppend())} {
				cb, ok := mv.(dom.ContainerBuilder)
				if !ok {
					continue
				}
				overwriteScalars(cb, 0)
				cb.AddValue("own-key", dom.LeafNode(1))
				for k := range cb.Children() {
					cb.Remove(k)
					break
				}
			}
		}},
		{"merge-twice", func() {
			// a merged view must not share writable state with its inputs: merging the same base with
			// two different overrides must leave the first result as it was
			base := dom.Builder().FromMap(map[string]any{"l": []any{1, 2, 3}, "m": []any{1, 2, 3, 4, 5}, "n": []any{1, 2, 3, 4, 5, 6, 7}})
			bd := dom.VerifDump(base)
			r1 := base.Merge(dom.Builder().FromMap(map[string]any{"l": []any{"x"}, "m": []any{"x", "y"}, "n": []any{"x"}}), dom.ListsMergeAppend())
			p1 := nodeToAny(r1)
			_ = base.Merge(dom.Builder().FromMap(map[string]any{"l": []any{"Z"}, "m": []any{"Z", "Z"}, "n": []any{"Z"}}), dom.ListsMergeAppend())
			if !reflect.DeepEqual(nodeToAny(r1), p1) {
				fail = append(fail, "a second merge of the same base changed the result of the first merge")
			}
			if dom.VerifDump(base) != bd {
				fail = append(fail, "Merge modified its receiver")
			}
		}},
	}
	rd := reads[r.Intn(len(reads))]
	if pn := guard(rd.f); pn != "" {
		fail = append(fail, "panic in overlay "+rd.name+": "+pn)
	}
	if dom.VerifDump(ov) != before {
		fail = append(fail, "overlay "+rd.name+" modified the overlay document")
	}
	return Case{Kind: "overlay-read", Desc: map[string]any{"read": rd.name, "layers": ov.LayerNames()}, Fail: fail, Nontrivial: true,
		Key: rd.name + before}
}

// 16 goroutines, each a random sequence of read-only calls on ONE sealed / quiescent document;
// every observation must equal the single-threaded one (under -race the detector must stay silent)
func c20Concurrent(seed int64, tier string) ([]string, map[string]any) {
	var fail []string
	rounds, perG := 12, 40
	if tier == "thorough" {
		rounds, perG = 120, 200
	}
	total := 0
	for round := 0; round < rounds; round++ {
		r := caseRng(seed, 700000+round)
		d, route := c20Doc(r)
		ov := dom.NewOverlayDocument()
		// list lengths 3, 5, 6, 7 leave spare capacity in the slice the decoder grew by appending
		ov.Add("l0", dom.Builder().FromMap(map[string]any{"a": map[string]any{}, "l": []any{1, 2, 3}, "m": []any{1, 2, 3, 4, 5}, "n": []any{1, 2, 3, 4, 5, 6, 7}, "k": "v"}))
		ov.Add("l1", dom.Builder().FromMap(map[string]any{"l": []any{4}, "m": []any{6, 7}, "n": []any{8}, "e": map[string]any{}}))
		type job struct {
			rd   c20Read
			want string
		}
		var mu sync.Mutex
		var wg sync.WaitGroup
		for g := 0; g < 16; g++ {
			gr := caseRng(seed, 800000+round*100+g)
			var jobs []job
			for i := 0; i < perG; i++ {
				rd := c20GenRead(gr, d)
				jobs = append(jobs, job{rd: rd})
			}
			// single-threaded expectations
			for i := range jobs {
				jobs[i].want = jobs[i].rd.run(d)
			}
			wg.Add(1)
			go func(jobs []job, g int) {
				defer wg.Done()
				for i, j := range jobs {
					var got string
					pn := guard(func() { got = j.rd.run(d) })
					if pn != "" || got != j.want {
						mu.Lock()
						fail = append(fail, fmt.Sprintf("goroutine %d: %s on a %s document observed something else than single-threaded (%s)", g, j.rd.desc, route, pn))
						mu.Unlock()
						return
					}
					if i%5 == 0 { // overlay views built from shared layers
						_ = ov.Merged(dom.ListsMergeAppend())
						_ = ov.LookupAny("l")
						_ = ov.Lookup("ghost", "k")
						_ = ov.Layers()
						_ = ov.Search(dom.SearchEqual("v"))
					}
				}
			}(jobs, g)
			total += len(jobs)
		}
		wg.Wait()
		if len(fail) > 0 {
			break
		}
		// a document none of the readers (nor anybody else in this process) has looked at before, with a list longer than
		// any seen so far: the FIRST reads happen concurrently, and every reader sees every position under its own path
		if round < 24 {
			n := 33 + round*11 + int(seed%7)
			big := make([]any, n)
			nested := make([]any, n+3)
			for i := range big {
				big[i] = i
			}
			for i := range nested {
				nested[i] = fmt.Sprintf("s%d", i)
			}
			bd := dom.Builder().FromMap(map[string]any{"big": big, "x": map[string]any{"inner": []any{nested}}}).Seal()
			var wg2 sync.WaitGroup
			for g := 0; g < 12; g++ {
				wg2.Add(1)
				go func(g int) {
					defer wg2.Done()
					pn := guard(func() {
						fl := bd.Flatten()
						bad := len(fl) != 2*n+3
						for i := 0; i < n && !bad; i++ {
							l, ok := fl[fmt.Sprintf("big[%d]", i)]
							bad = !ok || l.Value() != i
						}
						for i := 0; i < n+3 && !bad; i++ {
							l, ok := fl[fmt.Sprintf("x.inner[0][%d]", i)]
							bad = !ok || l.Value() != fmt.Sprintf("s%d", i)
						}
						if hits := bd.Search(dom.SearchEqual(n - 1)); len(hits) != 1 || hits[0] != fmt.Sprintf("big[%d]", n-1) {
							bad = true
						}
						// ... and serialised, through either of the two mapping helpers the package offers
						enc := dom.DefaultNodeEncoderFn
						if g%2 == 0 {
							enc = dom.DefaultNodeMappingFn
						}
						var sb bytes.Buffer
						if err := bd.Serialize(&sb, enc, dom.DefaultJsonEncoder); err != nil || !strings.Contains(sb.String(), fmt.Sprintf("\"s%d\"", n+2)) {
							bad = true
						}
						if bad {
							mu.Lock()
							fail = append(fail, fmt.Sprintf("goroutine %d: first concurrent Flatten/Search of a fresh document with lists of %d and %d items does not list every position under its own path", g, n, n+3))
							mu.Unlock()
						}
					})
					if pn != "" {
						mu.Lock()
						fail = append(fail, "panic in a concurrent first read of a fresh document: "+pn)
						mu.Unlock()
					}
				}(g)
			}
			wg2.Wait()
			total += 24
			if len(fail) > 0 {
				break
			}
		}
	}
	return fail, map[string]any{"concurrent_rounds": rounds, "goroutines": 16, "concurrent_reads": total}
}

func init() {
	register(&Prop{
		ID:   "C20",
		Rule: "documents with empty containers and empty lists at any depth along 7 construction routes (builder, FromMap, loaded from YAML, merged, cloned, sealed, empty sealed) x one read-only call (Child, Children, Lookup, Flatten, Search, AsMap, Equals, SameAs, Clone; then Serialize and list accessors, then writes into the plain value AsMap() returned, then 8 random edits of a Clone()): the generic representation dump (hook dom.VerifDump: every field, nil-ness/len/cap of maps and slices) must be identical before and after, and the returned value equal to the content-only model; overlay-read: Lookup (incl. unknown layer), LookupAny, Search, Merged (both strategies), Layers, LayerNames, Walk, Serialize, and random edits of Layers() snapshots and their clones leave the overlay's dump unchanged (layers derived from each other, so they share structure at every depth, plus a fixed three-level overlap with lists in lists). Extra: 16 goroutines x random read sequences on one shared document + overlay views, observations equal to single-threaded ones; the same harness is built with -race and must produce no race report; per round a FRESH document with lists longer than any seen before (33 … 300 items) whose first Flatten/Search/Serialize (through DefaultNodeEncoderFn and DefaultNodeMappingFn alike) happen concurrently in 12 goroutines. Non-trivial: document has an unallocated (nil) map or slice. Distinct by Gallina term. The slices returned by Items()/AsSlice() of every list and of its sealed view are overwritten and appended to by two readers. The merged view of an overlay (also of one layer) and the result of {}.Merge(d) are finished by their reader at the top level (add, remove, overwrite scalars). Snapshots edited below their root; LookupAny asked repeatedly.",
		Gen: func(r *rand.Rand, tier string, idx int) Case {
			if idx%5 == 4 {
				return c20Overlay(r)
			}
			return c20Case(r)
		},
		Extra: c20Concurrent,
	})
}

func hasOpaque(v any) bool {
	switch x := v.(type) {
	case Opaque:
		return true
	case map[string]any:
		for _, c := range x {
			if hasOpaque(c) {
				return true
			}
		}
	case []any:
		for _, c := range x {
			if hasOpaque(c) {
				return true
			}
		}
	}
	return false
}
