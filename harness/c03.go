package main

import (
	"fmt"
	"math/rand"
	"reflect"
	"regexp"
	"strconv"
	"strings"

	"github.com/rkosegi/yaml-toolkit/dom"
)

// ---------- plain map/slice reference for builder edits (the property's "plain tree")
type pcomp struct {
	key  string
	idxs []int
}

var idxRe = regexp.MustCompile(`\[(\d+)]$`)

func parseComp(s string) pcomp {
	var idxs []int
	for {
		m := idxRe.FindStringSubmatchIndex(s)
		if m == nil {
			break
		}
		i, _ := strconv.Atoi(s[m[2]:m[3]])
		idxs = append([]int{i}, idxs...)
		s = s[:m[0]]
	}
	return pcomp{s, idxs}
}

func parsePPath(p string) []pcomp {
	var cs []pcomp
	for _, s := range strings.Split(p, ".") {
		cs = append(cs, parseComp(s))
	}
	return cs
}

func pchild(m map[string]any, c pcomp) (any, bool) {
	v, ok := m[c.key]
	if !ok {
		return nil, false
	}
	for _, i := range c.idxs {
		l, isl := v.([]any)
		if !isl || i >= len(l) {
			return nil, false
		}
		v = l[i]
	}
	return v, true
}

// outOfDomain is set when a step indexes into an existing node that is neither a list nor null
var outOfDomain bool

func setIdx(x any, idxs []int, v any) any {
	l, isl := x.([]any)
	if !isl {
		if x != nil {
			outOfDomain = true
		}
		l = []any{}
	}
	l = append([]any{}, l...)
	i := idxs[0]
	for len(l) <= i {
		l = append(l, nil)
	}
	if len(idxs) == 1 {
		l[i] = v
	} else {
		l[i] = setIdx(l[i], idxs[1:], v)
	}
	return l
}

func padd(m map[string]any, c pcomp, v any) {
	if len(c.idxs) == 0 {
		m[c.key] = v
	} else {
		m[c.key] = setIdx(m[c.key], c.idxs, v)
	}
}

func paddAt(m map[string]any, cs []pcomp, v any) {
	if len(cs) == 1 {
		padd(m, cs[0], v)
		return
	}
	sub, ok := pchild(m, cs[0])
	sm, ism := sub.(map[string]any)
	if !ok || !ism {
		sm = map[string]any{}
	}
	paddAt(sm, cs[1:], v)
	padd(m, cs[0], sm)
}

func premoveAt(m map[string]any, raw []string) {
	cur := m
	for _, s := range raw[:len(raw)-1] {
		sub, ok := pchild(cur, parseComp(s))
		sm, ism := sub.(map[string]any)
		if !ok || !ism {
			return
		}
		cur = sm
	}
	delete(cur, raw[len(raw)-1])
}

func pcompact(m map[string]any) {
	for k, v := range m {
		if sm, ok := v.(map[string]any); ok {
			pcompact(sm)
			if len(sm) == 0 {
				delete(m, k)
			}
		}
	}
}

func plookup(m map[string]any, cs []pcomp) (any, bool) {
	cur := m
	for i, c := range cs {
		v, ok := pchild(cur, c)
		if !ok {
			return nil, false
		}
		if i == len(cs)-1 {
			return v, true
		}
		sm, ism := v.(map[string]any)
		if !ism {
			return nil, false
		}
		cur = sm
	}
	return nil, false
}

func deepCopy(v any) any {
	switch x := v.(type) {
	case map[string]any:
		m := map[string]any{}
		for k, c := range x {
			m[k] = deepCopy(c)
		}
		return m
	case []any:
		l := make([]any, len(x))
		for i, c := range x {
			l[i] = deepCopy(c)
		}
		return l
	default:
		return v
	}
}

var c03Keys = []string{"a", "b", "k1", "x-y"}

func genCompStr(r *rand.Rand) string {
	k := c03Keys[r.Intn(4)]
	switch r.Intn(7) {
	case 0:
		if r.Intn(6) == 0 { // positions beyond the tenth item
			return fmt.Sprintf("%s[%d]", k, 10+r.Intn(4))
		}
		return fmt.Sprintf("%s[%d]", k, r.Intn(5))
	case 1:
		return fmt.Sprintf("%s[%d][%d]", k, r.Intn(3), r.Intn(3))
	case 2: // lists nested three deep (and, rarely, four), the indexes not all equal
		i := r.Intn(3)
		if r.Intn(4) == 0 {
			return fmt.Sprintf("%s[%d][%d][%d][%d]", k, i, (i+1)%3, r.Intn(3), r.Intn(2))
		}
		return fmt.Sprintf("%s[%d][%d][%d]", k, i, (i+1+r.Intn(2))%3, r.Intn(3))
	}
	return k
}

// one (empty) container object stored under two parents, then Walk(CompactFn): the walk visits every
// position — the plain tree loses the empty container at both
func c03SharedWalk() Case {
	var fail []string
	pn := guard(func() {
		shared := dom.Builder().Container()
		inner := dom.Builder().Container()
		shared.AddValue("inner", inner) // holds only an empty container
		d := dom.Builder().Container()
		p1, p2 := dom.Builder().Container(), dom.Builder().Container()
		p1.AddValue("defaults", shared)
		p1.AddValue("keep", dom.LeafNode(1))
		p2.AddValue("defaults", shared)
		d.AddValue("first", p1)
		d.AddValue("second", p2)
		d.AddValue("top", dom.LeafNode("x"))
		d.Walk(dom.CompactFn)
		want := map[string]any{"first": map[string]any{"keep": 1}, "top": "x"}
		if got := nodeToAny(d); !reflect.DeepEqual(got, any(want)) {
			fail = append(fail, fmt.Sprintf("Walk(CompactFn) over a document holding one empty container under two parents leaves %v, the plain tree %v", got, want))
		}
	})
	if pn != "" {
		fail = append(fail, "panic: "+pn)
	}
	return Case{Kind: "shared-walk", Desc: "one empty container object under two parents, Walk(CompactFn)", Fail: fail, Nontrivial: true, Key: "shared-walk"}
}

func genPathStr(r *rand.Rand) string {
	n := 1 + r.Intn(3)
	var cs []string
	for i := 0; i < n; i++ {
		cs = append(cs, genCompStr(r))
	}
	return strings.Join(cs, ".")
}

// pick a path that currently resolves (to bias towards interactions), else a random one
func existingPath(r *rand.Rand, m map[string]any, wantList bool) (string, bool) {
	var found []string
	var walk func(v any, p string)
	walk = func(v any, p string) {
		switch x := v.(type) {
		case map[string]any:
			if p != "" && !wantList {
				found = append(found, p)
			}
			for _, k := range sortedKeys(x) {
				if strings.ContainsAny(k, ".[]") || k == "" {
					continue
				}
				q := k
				if p != "" {
					q = p + "." + k
				}
				walk(x[k], q)
			}
		case []any:
			if p != "" {
				found = append(found, p)
			}
			for i, c := range x {
				walk(c, fmt.Sprintf("%s[%d]", p, i))
			}
		default:
			if p != "" && !wantList {
				found = append(found, p)
			}
		}
	}
	walk(m, "")
	if len(found) == 0 {
		return "", false
	}
	return found[r.Intn(len(found))], true
}

type c03Step struct {
	desc string
	coq  string
}

// one random builder step applied to both the implementation and the plain reference;
// returns ok=false when the step was skipped (out of the property's domain or not applicable)
func c03Step1(r *rand.Rand, d dom.ContainerBuilder, ref map[string]any, fail *[]string) (c03Step, bool) {
	o := defaultOpts()
	o.keys = c03Keys
	o.maxDepth = 3
	pick := func() string {
		if r.Intn(3) == 0 {
			if p, ok := existingPath(r, ref, false); ok {
				if r.Intn(2) == 0 {
					return p + "." + genCompStr(r)
				}
				return p
			}
		}
		return genPathStr(r)
	}
	try := func(f func(m map[string]any)) bool { // dry-run on a copy for the domain check
		outOfDomain = false
		f(deepCopy(ref).(map[string]any))
		return !outOfDomain
	}
	fluent := func(got any, want any, what string) {
		if got != want {
			*fail = append(*fail, what+" did not return the documented receiver")
		}
	}
	switch op := r.Intn(12); op {
	case 0, 1, 2, 3:
		p := pick()
		v := genVal(r, o, 2, false)
		if !try(func(m map[string]any) { paddAt(m, parsePPath(p), v) }) {
			return c03Step{}, false
		}
		fluent(d.AddValueAt(p, anyToNode(v)), dom.ContainerBuilder(d), "AddValueAt")
		paddAt(ref, parsePPath(p), deepCopy(v))
		return c03Step{fmt.Sprintf("AddValueAt(%s, %v)", p, v), "OAddValueAt " + gStr(p) + " " + gNode(v)}, true
	case 4:
		c := genCompStr(r)
		v := genVal(r, o, 2, false)
		if !try(func(m map[string]any) { padd(m, parseComp(c), v) }) {
			return c03Step{}, false
		}
		fluent(d.AddValue(c, anyToNode(v)), dom.ContainerBuilder(d), "AddValue")
		padd(ref, parseComp(c), deepCopy(v))
		return c03Step{fmt.Sprintf("AddValue(%s, %v)", c, v), "OAddValue " + gStr(c) + " " + gNode(v)}, true
	case 5:
		c := genCompStr(r)
		if r.Intn(2) == 0 {
			if !try(func(m map[string]any) { padd(m, parseComp(c), map[string]any{}) }) {
				return c03Step{}, false
			}
			got := d.AddContainer(c)
			if d.Child(c) != dom.Node(got) {
				*fail = append(*fail, "AddContainer did not return the child now at that name")
			}
			padd(ref, parseComp(c), map[string]any{})
			return c03Step{"AddContainer(" + c + ")", "OAddContainer " + gStr(c)}, true
		}
		if !try(func(m map[string]any) { padd(m, parseComp(c), []any{}) }) {
			return c03Step{}, false
		}
		got := d.AddList(c)
		if d.Child(c) != dom.Node(got) {
			*fail = append(*fail, "AddList did not return the child now at that name")
		}
		padd(ref, parseComp(c), []any{})
		return c03Step{"AddList(" + c + ")", "OAddList " + gStr(c)}, true
	case 6:
		k := c03Keys[r.Intn(4)]
		fluent(d.Remove(k), dom.ContainerBuilder(d), "Remove")
		delete(ref, k)
		return c03Step{"Remove(" + k + ")", "ORemove " + gStr(k)}, true
	case 7, 8:
		p := pick()
		fluent(d.RemoveAt(p), dom.ContainerBuilder(d), "RemoveAt")
		premoveAt(ref, strings.Split(p, "."))
		return c03Step{"RemoveAt(" + p + ")", "ORemoveAt " + gStr(p)}, true
	case 9:
		d.Walk(dom.CompactFn)
		pcompact(ref)
		return c03Step{"Walk(CompactFn)", "OCompact"}, true
	default:
		p, ok := existingPath(r, ref, true)
		if !ok {
			return c03Step{}, false
		}
		lb, isLb := d.Lookup(p).(dom.ListBuilder)
		rl, rok := plookup(ref, parsePPath(p))
		l, risl := rl.([]any)
		if isLb != (rok && risl) {
			*fail = append(*fail, "Lookup("+p+") disagrees with the plain tree about a list being there")
			return c03Step{}, false
		}
		if !isLb {
			return c03Step{}, false
		}
		switch r.Intn(4) {
		case 0:
			i := r.Intn(5)
			v := genVal(r, o, 2, true)
			fluent(lb.Set(uint(i), anyToNode(v)), lb, "Set")
			paddAt(ref, parsePPath(p), setIdx(l, []int{i}, deepCopy(v)))
			return c03Step{fmt.Sprintf("%s.Set(%d, %v)", p, i, v), fmt.Sprintf("OListSet %s %d %s", gStr(p), i, gNode(v))}, true
		case 1:
			v := genVal(r, o, 2, true)
			fluent(lb.Append(anyToNode(v)), lb, "Append")
			paddAt(ref, parsePPath(p), append(append([]any{}, l...), deepCopy(v)))
			return c03Step{fmt.Sprintf("%s.Append(%v)", p, v), "OListAppend " + gStr(p) + " " + gNode(v)}, true
		case 2:
			fluent(lb.Clear(), lb, "Clear")
			paddAt(ref, parsePPath(p), []any{})
			return c03Step{p + ".Clear()", "OListClear " + gStr(p)}, true
		default:
			if len(l) == 0 {
				return c03Step{}, false
			}
			i := r.Intn(len(l))
			v := genVal(r, o, 2, true)
			fluent(lb.MustSet(uint(i), anyToNode(v)), lb, "MustSet")
			paddAt(ref, parsePPath(p), setIdx(l, []int{i}, deepCopy(v)))
			return c03Step{fmt.Sprintf("%s.MustSet(%d, %v)", p, i, v), fmt.Sprintf("OListMustSet %s %d %s", gStr(p), i, gNode(v))}, true
		}
	}
}

func c03History(r *rand.Rand, start map[string]any, nsteps int, script func(step int, d dom.ContainerBuilder, ref map[string]any, fail *[]string) (c03Step, bool)) Case {
	d := anyToContainer(start)
	ref := deepCopy(start).(map[string]any)
	var fail []string
	var steps []c03Step
	var obs []any
	prefixRelated := 0
	for s := 0; s < nsteps; s++ {
		var st c03Step
		var ok bool
		pn := guard(func() {
			if script != nil {
				st, ok = script(s, d, ref, &fail)
			} else {
				st, ok = c03Step1(r, d, ref, &fail)
			}
		})
		if pn != "" {
			fail = append(fail, "panic: "+pn)
			break
		}
		if !ok {
			continue
		}
		steps = append(steps, st)
		got := nodeToAny(d)
		obs = append(obs, got)
		if !reflect.DeepEqual(d.AsMap(), ref) {
			fail = append(fail, fmt.Sprintf("after step %d (%s): AsMap(doc) != plain tree", len(steps), st.desc))
			break
		}
		// Lookup agrees with the plain tree about what is where — also below what was just removed or overwritten, where a
		// member of the same name may exist one level up
		if r != nil {
			for probe := 0; probe < 2; probe++ {
				p := genPathStr(r)
				if probe == 1 {
					if ep, ok := existingPath(r, ref, false); ok {
						p = ep + "." + c03Keys[r.Intn(4)]
					}
				}
				outOfDomain = false
				want, wok := plookup(ref, parsePPath(p))
				if outOfDomain {
					continue
				}
				got := d.Lookup(p)
				if wok != (got != nil) {
					fail = append(fail, fmt.Sprintf("after step %d (%s): Lookup(%s) finds something=%v, the plain tree has something there=%v", len(steps), st.desc, p, got != nil, wok))
					break
				}
				if wok && !reflect.DeepEqual(nodeToAny(got), want) {
					fail = append(fail, fmt.Sprintf("after step %d (%s): Lookup(%s) is not what the plain tree holds there", len(steps), st.desc, p))
					break
				}
			}
			if len(fail) > 0 {
				break
			}
		}
		if strings.Contains(st.desc, ".") || strings.Contains(st.desc, "[") {
			prefixRelated++
		}
	}
	descs := make([]string, len(steps))
	coqs := make([]string, len(steps))
	for i, s := range steps {
		descs[i], coqs[i] = s.desc, s.coq
	}
	return Case{Kind: "history", Desc: map[string]any{"start": start, "steps": descs, "final": ref},
		Coq:  "CHist " + gNode(start) + " [" + strings.Join(coqs, "; ") + "] " + gList(obs, gNode),
		Fail: fail, Nontrivial: len(steps) >= 3 && prefixRelated >= 2}
}

// two lists created by dom.ListNode(items...) from ONE slice the caller keeps (with spare
// capacity): they are two lists; an edit of either is not an edit of the other
func c03SharedSlice(r *rand.Rand) Case {
	backing := make([]dom.Node, 2, 4)
	backing[0], backing[1] = dom.LeafNode(1), dom.LeafNode(2)
	names := []string{"k0", "k1"}
	script := func(step int, d dom.ContainerBuilder, ref map[string]any, fail *[]string) (c03Step, bool) {
		if step < 2 {
			d.AddValue(names[step], dom.ListNode(backing...))
			ref[names[step]] = []any{1, 2}
			return c03Step{"AddValue(" + names[step] + ", ListNode(shared...))", "OAddValue " + gStr(names[step]) + " " + gNode([]any{1, 2})}, true
		}
		n := names[r.Intn(2)]
		lb, ok := d.Child(n).(dom.ListBuilder)
		if !ok {
			return c03Step{}, false
		}
		cur := ref[n].([]any)
		v := 100*step + r.Intn(50)
		switch r.Intn(3) {
		case 0:
			i := r.Intn(len(cur))
			lb.MustSet(uint(i), dom.LeafNode(v))
			nl := append([]any{}, cur...)
			nl[i] = v
			ref[n] = nl
			return c03Step{fmt.Sprintf("%s.MustSet(%d, %v)", n, i, v), fmt.Sprintf("OListMustSet %s %d %s", gStr(n), i, gNode(v))}, true
		case 1:
			lb.Append(dom.LeafNode(v))
			ref[n] = append(append([]any{}, cur...), v)
			return c03Step{fmt.Sprintf("%s.Append(%v)", n, v), "OListAppend " + gStr(n) + " " + gNode(v)}, true
		default:
			i := r.Intn(len(cur) + 2)
			lb.Set(uint(i), dom.LeafNode(v))
			nl := append([]any{}, cur...)
			for len(nl) <= i {
				nl = append(nl, nil)
			}
			nl[i] = v
			ref[n] = nl
			return c03Step{fmt.Sprintf("%s.Set(%d, %v)", n, i, v), fmt.Sprintf("OListSet %s %d %s", gStr(n), i, gNode(v))}, true
		}
	}
	c := c03History(r, map[string]any{}, 3+r.Intn(6), script)
	c.Kind = "history-shared-slice"
	c.Nontrivial = true
	return c
}

func init() {
	register(&Prop{
		ID:   "C03",
		Rule: "histories of 1-40 builder steps (AddValue / AddValueAt / AddContainer / AddList / Remove / RemoveAt / list Set, MustSet (in range), Append, Clear through a handle re-acquired by Lookup / Walk(CompactFn)) over 4 path-safe keys, indices 0-4, chains to depth 2, paths to 3 components, biased towards existing positions; start = empty or generated document; steps that index into an existing non-null non-list node are skipped (outside the property). After EVERY step: AsMap(doc) vs the plain map/slice interpreter (Go) and the DOM read node by node vs the Coq model. Plus history-shared-slice: two lists made by ListNode(items...) from one slice the caller keeps, then edited independently. Non-trivial: >= 3 steps of which >= 2 use dotted/indexed paths. Distinct by Gallina term. Path components carry index chains up to four deep. Positions 10-13; corpus: one empty container object under two parents, then Walk(CompactFn).",
		Corpus: func() []Case {
			mk := func(start map[string]any, ops ...func(d dom.ContainerBuilder, ref map[string]any) c03Step) Case {
				return c03History(nil, start, len(ops), func(i int, d dom.ContainerBuilder, ref map[string]any, fail *[]string) (c03Step, bool) {
					return ops[i](d, ref), true
				})
			}
			addAt := func(p string, v any) func(d dom.ContainerBuilder, ref map[string]any) c03Step {
				return func(d dom.ContainerBuilder, ref map[string]any) c03Step {
					d.AddValueAt(p, anyToNode(v))
					paddAt(ref, parsePPath(p), deepCopy(v))
					return c03Step{"AddValueAt(" + p + ")", "OAddValueAt " + gStr(p) + " " + gNode(v)}
				}
			}
			rmAt := func(p string) func(d dom.ContainerBuilder, ref map[string]any) c03Step {
				return func(d dom.ContainerBuilder, ref map[string]any) c03Step {
					d.RemoveAt(p)
					premoveAt(ref, strings.Split(p, "."))
					return c03Step{"RemoveAt(" + p + ")", "ORemoveAt " + gStr(p)}
				}
			}
			return []Case{
				mk(map[string]any{}, addAt("a[1][0]", 1), addAt("a[0][0]", 2)),                               // pinned-tree panic
				mk(map[string]any{}, addAt("a[0][0][0]", 1), addAt("a[0][0][1]", 2), addAt("a[0][1][0]", 3)), // lost data
				mk(map[string]any{"a": []any{1, 2}}, addAt("a[3]", 9)),
				mk(map[string]any{"b": map[string]any{"c": []any{map[string]any{"x": 1}}}}, rmAt("b.c[0].x"), rmAt("b.c[0]")),
				mk(map[string]any{"a": map[string]any{"b": map[string]any{}}}, rmAt("a.b.c"), rmAt("a.b")),
				c03SharedWalk(),
			}
		},
		Gen: func(r *rand.Rand, tier string, idx int) Case {
			o := defaultOpts()
			o.keys = c03Keys
			o.maxDepth = 3
			if idx%16 == 11 {
				return c03SharedSlice(r)
			}
			start := map[string]any{}
			if r.Intn(2) == 0 {
				start = genDoc(r, o)
			}
			if idx%16 == 13 {
				// AddContainer / AddList at a list position that already holds an (equal, empty) container or list: the builder that
				// comes back is the node now in the document — what is written through it is in the document
				k := c03Keys[r.Intn(4)]
				pos := fmt.Sprintf("%s[%d]", k, r.Intn(3))
				asList := r.Intn(2) == 0
				var second dom.Node
				return c03History(r, map[string]any{}, 3+r.Intn(8), func(step int, d dom.ContainerBuilder, ref map[string]any, fail *[]string) (c03Step, bool) {
					switch step {
					case 0, 1:
						var got dom.Node
						if asList {
							got = d.AddList(pos)
							padd(ref, parseComp(pos), []any{})
						} else {
							got = d.AddContainer(pos)
							padd(ref, parseComp(pos), map[string]any{})
						}
						if d.Child(pos) != got {
							*fail = append(*fail, "AddContainer/AddList at "+pos+" did not return the node now at that position")
						}
						second = got
						if asList {
							return c03Step{"AddList(" + pos + ")", "OAddList " + gStr(pos)}, true
						}
						return c03Step{"AddContainer(" + pos + ")", "OAddContainer " + gStr(pos)}, true
					case 2:
						if asList {
							second.(dom.ListBuilder).Append(dom.LeafNode("through-the-returned-builder"))
							paddAt(ref, parsePPath(pos+"[0]"), "through-the-returned-builder")
							return c03Step{"returned list .Append(..)", "OAddValueAt " + gStr(pos+"[0]") + " " + gNode("through-the-returned-builder")}, true
						}
						second.(dom.ContainerBuilder).AddValue("x", dom.LeafNode("through-the-returned-builder"))
						paddAt(ref, parsePPath(pos+".x"), "through-the-returned-builder")
						return c03Step{"returned container .AddValue(x, ..)", "OAddValueAt " + gStr(pos+".x") + " " + gNode("through-the-returned-builder")}, true
					}
					return c03Step1(r, d, ref, fail)
				})
			}
			if idx%16 == 5 {
				// consecutive writes into ONE directory with the directory (or an ancestor of it) taken away in between, through
				// the root or through the builder of a node on the way: the second write creates the directory anew
				k1, k2, k3 := c03Keys[r.Intn(4)], c03Keys[r.Intn(4)], c03Keys[r.Intn(4)]
				dir := []string{k1 + "." + k2, k1 + "." + k2 + "." + k3, k1}[r.Intn(3)]
				how := r.Intn(4)
				return c03History(r, start, 4+r.Intn(10), func(step int, d dom.ContainerBuilder, ref map[string]any, fail *[]string) (c03Step, bool) {
					addAt := func(p string, v any) (c03Step, bool) {
						outOfDomain = false
						paddAt(deepCopy(ref).(map[string]any), parsePPath(p), v)
						if outOfDomain {
							return c03Step{}, false
						}
						d.AddValueAt(p, anyToNode(v))
						paddAt(ref, parsePPath(p), deepCopy(v))
						return c03Step{fmt.Sprintf("AddValueAt(%s, %v)", p, v), "OAddValueAt " + gStr(p) + " " + gNode(v)}, true
					}
					switch step {
					case 0:
						return addAt(dir+".c", "first")
					case 1:
						victim := dir
						if how == 1 && strings.Contains(dir, ".") { // an ancestor of the directory
							victim = dir[:strings.LastIndex(dir, ".")]
						}
						desc := "RemoveAt(" + victim + ")"
						if i := strings.LastIndex(victim, "."); how >= 2 && i > 0 {
							// the same removal through the builder of the parent node
							if pb, ok := d.Lookup(victim[:i]).(dom.ContainerBuilder); ok {
								pb.Remove(victim[i+1:])
								desc = "Lookup(" + victim[:i] + ").Remove(" + victim[i+1:] + ")"
							} else {
								d.RemoveAt(victim)
							}
						} else {
							d.RemoveAt(victim)
						}
						premoveAt(ref, strings.Split(victim, "."))
						return c03Step{desc, "ORemoveAt " + gStr(victim)}, true
					case 2:
						return addAt(dir+".d", "second")
					case 3:
						return addAt(dir+".c", "third")
					}
					return c03Step1(r, d, ref, fail)
				})
			}
			return c03History(r, start, 1+r.Intn(40), nil)
		},
	})
}
