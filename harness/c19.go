package main

import (
	"fmt"
	"math/rand"
	"reflect"
	"sort"
	"strings"

	"github.com/rkosegi/yaml-toolkit/analytics"
	"github.com/rkosegi/yaml-toolkit/dom"
)

// leaf keys of the pool in dependency order: a value may only mention later keys (acyclic)
var c19Pool = []string{"l[0].u", "a", "b", "c.d", "c-x", "e", "f.g", "m[0][0]", "sel"}

func c19Value(r *rand.Rand, idx int) any {
	if c19Pool[idx] == "sel" { // names the second segment of c.d: ${c.${sel}} is a mention of c.d by a computed name
		return "d"
	}
	later := c19Pool[idx+1:]
	if idx <= 1 && r.Intn(6) == 0 {
		return []string{"${c.${sel}}", "x${c.${sel}}y${e}", "${f.${nope:g}}"}[r.Intn(3)]
	}
	pick := func() string {
		if len(later) == 0 || r.Intn(5) == 0 {
			return []string{"zz", "nope.x", "c..d", ".a", "e.", "f..g"}[r.Intn(6)] // (a name with an empty component names nothing)
		}
		return later[r.Intn(len(later))]
	}
	switch r.Intn(16) {
	case 10: // a longer look-alike key (or a default form) of the same key first, then the plain mention
		k := pick()
		return []string{"${" + k + "2},${" + k + "}", "${" + k + ":d},${" + k + "}", "${" + k + ".x}${" + k + "}", "${" + k + "}${" + k + "2}"}[r.Intn(4)]
	case 11: // adjacent placeholders, the first one unknown
		return "${" + []string{"zz", "nope.x"}[r.Intn(2)] + "}${" + pick() + "}"
	case 12: // three mentions with text in between, the same key first and last
		k := pick()
		return "${" + k + "} ${" + pick() + "} ${" + k + "}"
	case 15: // empty defaults
		k := pick()
		return []string{"${" + k + ":}", "${" + k + ":}${zz:}", "a${zz:}b", "${" + k + ":}-${" + pick() + ":}"}[r.Intn(4)]
	case 14: // a closing brace before the first placeholder
		return []string{"/api/{v}/${" + pick() + "}", "a}b${zz}", "}${nope.x}", "{}${" + pick() + "}"}[r.Intn(4)]
	case 13: // placeholder-like noise
		return []string{"$", "${", "${}", "}${", "$${" + pick() + "}", "${" + pick() + "}}"}[r.Intn(6)]
	case 0:
		return r.Intn(5)
	case 1:
		if r.Intn(3) == 0 { // a key defined as the empty string is defined
			return ""
		}
		return "plain"
	case 2:
		return r.Intn(2) == 0
	case 3: // repeated mention
		k := pick()
		return "${" + k + "}-${" + k + "}"
	case 4: // default form (prefix ${k: and suffix })
		return "${" + pick() + ":dflt}"
	case 5: // two keys
		return "x${" + pick() + "}y${" + pick() + "}"
	case 6: // unterminated
		return "${" + pick()
	case 7: // default containing a placeholder
		return "${zz:${" + pick() + "}}"
	default:
		return "${" + pick() + "}"
	}
}

func c19Layer(r *rand.Rand) map[string]any {
	m := map[string]any{}
	for i, k := range c19Pool {
		if r.Intn(3) == 0 {
			continue
		}
		paddAt(m, parsePPath(k), c19Value(r, i))
	}
	// layers may disagree about the kind of a node: a scalar where another layer has a mapping, and the reverse
	switch r.Intn(10) {
	case 0:
		m["c"] = []any{"scalar-over-mapping", "${e}"}[r.Intn(2)]
	case 1: // (a key nobody mentions: a mention of a mapping is outside the resolver's contract)
		m["l"] = []any{map[string]any{"u": map[string]any{"sub": "${f.g}", "n": 1}}}
	case 2: // keys that differ in letter case only are different keys, both mentioned
		m["region"], m["Region"], m["uses"] = "r", "R", "${region}-${Region}"
	case 3: // a list of more than ten items: item 10 mentions a key and is mentioned by its own path
		l := make([]any, 12)
		for i := range l {
			l[i] = fmt.Sprintf("h%d", i)
		}
		l[10] = "${e}"
		m["hosts"], m["tenth"] = l, "${hosts[10]}/${hosts[2]}"
	}
	return m
}

type c19Overlay struct {
	names  []string
	layers []map[string]any
}

func c19GenOverlay(r *rand.Rand, prefix string) c19Overlay {
	var o c19Overlay
	for i, n := 0, 1+r.Intn(3); i < n; i++ {
		l := c19Layer(r)
		if len(l) == 0 {
			continue
		}
		// an upper layer that says null where a lower one has a value: a null carries no value, the lower one stays
		if len(o.layers) > 0 && r.Intn(3) == 0 {
			for _, k := range sortedKeys(o.layers[len(o.layers)-1]) {
				if _, isMap := o.layers[len(o.layers)-1][k].(map[string]any); !isMap && r.Intn(2) == 0 {
					l[k] = nil
				}
			}
		}
		o.names = append(o.names, fmt.Sprintf("%s%d", prefix, i))
		o.layers = append(o.layers, l)
	}
	return o
}

func (o c19Overlay) build() dom.OverlayDocument {
	ov := dom.NewOverlayDocument()
	for i, n := range o.names {
		ov.Add(n, anyToContainer(o.layers[i]))
	}
	return ov
}

func (o c19Overlay) gallina() string {
	var parts []string
	for i, n := range o.names {
		parts = append(parts, "("+gStr(n)+", "+gNode(o.layers[i])+")")
	}
	return "[" + strings.Join(parts, "; ") + "]"
}

func (o c19Overlay) desc() map[string]any {
	m := map[string]any{}
	for i, n := range o.names {
		m[n] = o.layers[i]
	}
	return map[string]any{"order": o.names, "layers": m}
}

type normCoords map[string][]string // key -> sorted "layer|path"

func normMap(m map[string]dom.Coordinates) normCoords {
	out := normCoords{}
	for k, cs := range m {
		var l []string
		for _, c := range cs {
			l = append(l, c.Layer()+"|"+c.Path())
		}
		sort.Strings(l)
		out[k] = l
	}
	return out
}

func gCoordMap(m normCoords) string {
	return gList(sortedKeys(m), func(k string) string {
		return "(" + gStr(k) + ", " + gList(m[k], func(s string) string {
			i := strings.Index(s, "|")
			return "(" + gStr(s[:i]) + ", " + gStr(s[i+1:]) + ")"
		}) + ")"
	})
}

func mentionsTwo(o c19Overlay) bool {
	for _, l := range o.layers {
		fl := map[string]any{}
		refFlatten(l, "", fl)
		for _, v := range fl {
			if s, ok := v.(string); ok && strings.Count(s, "${") >= 2 {
				return true
			}
		}
	}
	return false
}

func c19Dep(r *rand.Rand) Case {
	src := c19GenOverlay(r, "s")
	var refs []c19Overlay
	for i, n := 0, r.Intn(3); i < n; i++ {
		refs = append(refs, c19GenOverlay(r, fmt.Sprintf("r%d_", i)))
	}
	var first *analytics.DependencyResolutionReport
	var firstMap normCoords
	var fail []string
	pn := guard(func() {
		for i := 0; i < 20; i++ {
			var rd []dom.OverlayDocument
			for _, x := range refs {
				rd = append(rd, x.build())
			}
			resolver := analytics.DefaultDependencyResolver()
			if i%2 == 1 {
				// a resolver is immutable once built: re-configuring its builder afterwards must not reach it
				b := analytics.NewDependencyResolverBuilder()
				resolver = b.Build()
				b.PlaceholderMatcher(func(string) dom.SearchValueFunc { return func(any) bool { return false } })
				b.OnPlaceholderEncountered(func(string, dom.Coordinates) { panic("callback of a later configuration") })
				_ = b.Build()
			}
			if i%4 == 3 && len(rd) >= 2 {
				// the reference documents are the caller's slice (here with spare capacity): a report over a
				// prefix of it, then the report over all of it
				pool := append(make([]dom.OverlayDocument, 0, len(rd)+4), rd...)
				_ = resolver.Resolve(src.build(), pool[:1]...)
				rd = pool
			}
			rep := resolver.Resolve(src.build(), rd...)
			nm := normMap(rep.Map)
			if i == 0 {
				first, firstMap = rep, nm
			} else if !reflect.DeepEqual(rep.AllKeys, first.AllKeys) || !reflect.DeepEqual(rep.OrphanKeys, first.OrphanKeys) || !reflect.DeepEqual(nm, firstMap) {
				fail = append(fail, "repeated runs of the dependency resolver gave different reports")
				break
			}
		}
	})
	if pn != "" {
		return Case{Kind: "dependency", Desc: map[string]any{"src": src.desc(), "panic": pn}, Fail: []string{"panic in dependency resolver: " + pn}, Nontrivial: true}
	}
	// AllKeys = OrphanKeys ⊎ keys(Map), sorted
	if !sort.StringsAreSorted(first.AllKeys) || !sort.StringsAreSorted(first.OrphanKeys) {
		fail = append(fail, "AllKeys / OrphanKeys not sorted")
	}
	union := append([]string{}, first.OrphanKeys...)
	for k := range first.Map {
		union = append(union, k)
	}
	sort.Strings(union)
	if !reflect.DeepEqual(union, append([]string{}, first.AllKeys...)) && !(len(union) == 0 && len(first.AllKeys) == 0) {
		fail = append(fail, "AllKeys is not the disjoint union of OrphanKeys and keys(Map)")
	}
	var refG []string
	var refD []any
	for _, x := range refs {
		refG = append(refG, x.gallina())
		refD = append(refD, x.desc())
	}
	return Case{Kind: "dependency", Desc: map[string]any{"src": src.desc(), "refs": refD, "all": first.AllKeys, "orphans": first.OrphanKeys, "map": firstMap},
		Coq:  "CDep " + src.gallina() + " [" + strings.Join(refG, "; ") + "] " + gStrs(first.AllKeys) + " " + gStrs(first.OrphanKeys) + " " + gCoordMap(firstMap),
		Fail: fail, Nontrivial: mentionsTwo(src)}
}

func c19Ph(r *rand.Rand) Case {
	ov := c19GenOverlay(r, "l")
	kf := r.Intn(3)
	var pred func(string) bool
	var coqKf string
	switch kf {
	case 0:
		pred, coqKf = func(string) bool { return true }, "KAll"
	case 1:
		pred, coqKf = func(s string) bool { return strings.HasPrefix(s, "c") }, "(KPrefix \"c\")"
	default:
		pred, coqKf = func(s string) bool { return s != "a" }, "(KNotEq \"a\")"
	}
	var first *analytics.PlaceholderResolutionReport
	var firstCo normCoords
	var fail []string
	pn := guard(func() {
		for i := 0; i < 20; i++ {
			pb := analytics.NewPlaceholderResolverBuilder().WithKeyFilter(pred)
			presolver := pb.Build()
			if i%2 == 1 {
				pb.WithKeyFilter(func(string) bool { return false }) // must not reach the resolver built before
				_ = pb.Build()
			}
			rep := presolver.Resolve(ov.build())
			nc := normMap(rep.Coordinates)
			if i == 0 {
				first, firstCo = rep, nc
			} else if !reflect.DeepEqual(rep.FailedKeys, first.FailedKeys) || !reflect.DeepEqual(nc, firstCo) {
				fail = append(fail, "repeated runs of the placeholder resolver gave different reports")
				break
			}
		}
	})
	if pn != "" {
		return Case{Kind: "placeholder", Desc: map[string]any{"overlay": ov.desc(), "panic": pn}, Fail: []string{"panic in placeholder resolver: " + pn}, Nontrivial: true}
	}
	if !sort.StringsAreSorted(first.FailedKeys) {
		fail = append(fail, "FailedKeys not sorted")
	}
	return Case{Kind: "placeholder", Desc: map[string]any{"overlay": ov.desc(), "filter": coqKf, "failed": first.FailedKeys, "coords": firstCo},
		Coq:  "CPh " + coqKf + " " + ov.gallina() + " " + gStrs(first.FailedKeys) + " " + gCoordMap(firstCo),
		Fail: fail, Nontrivial: mentionsTwo(ov)}
}

func gCoords(cs dom.Coordinates) string {
	var l []string
	for _, c := range cs {
		l = append(l, c.Layer()+"|"+c.Path())
	}
	sort.Strings(l)
	return gList(l, func(s string) string {
		i := strings.Index(s, "|")
		return "(" + gStr(s[:i]) + ", " + gStr(s[i+1:]) + ")"
	})
}

// the placeholder resolver built with everything its builder offers: key filter, value matcher, both callbacks
func c19PhConfigured(r *rand.Rand) Case {
	ov := c19GenOverlay(r, "l")
	var pred func(string) bool
	var coqKf string
	switch r.Intn(3) {
	case 0:
		pred, coqKf = func(string) bool { return true }, "KAll"
	case 1:
		pred, coqKf = func(s string) bool { return strings.HasPrefix(s, "c") }, "(KPrefix \"c\")"
	default:
		pred, coqKf = func(s string) bool { return s != "a" }, "(KNotEq \"a\")"
	}
	var matcher func(string) bool
	coqVm := "VDefault"
	switch r.Intn(3) {
	case 1:
		matcher, coqVm = func(string) bool { return true }, "VAll"
	case 2:
		matcher, coqVm = func(s string) bool { return strings.Contains(s, "}") }, "(VContains \"}\")"
	}
	var fail, evs []string
	var rep *analytics.PlaceholderResolutionReport
	seen := map[string]bool{}
	pn := guard(func() {
		// a setting given twice: the one given last counts (also for the matcher and the callbacks)
		pb := analytics.NewPlaceholderResolverBuilder().
			WithKeyFilter(func(s string) bool { return s == "only-this-key" }).
			OnPlaceholderEncountered(func(string, string) { panic("callback that was replaced before Build") }).
			WithKeyFilter(pred)
		if matcher != nil {
			pb = pb.WithPlaceholderMatcher(func(string) bool { return false }).WithPlaceholderMatcher(matcher)
		}
		pb = pb.OnPlaceholderEncountered(func(k, v string) {
			evs = append(evs, "PhSeen "+gStr(k)+" "+gStr(v))
			seen[k+"\x00"+v] = true
		}).OnResolutionFailure(func(k, v string, cs dom.Coordinates) {
			if !seen[k+"\x00"+v] {
				fail = append(fail, "OnResolutionFailure("+k+") without an earlier OnPlaceholderEncountered for it")
			}
			evs = append(evs, "PhFailed "+gStr(k)+" "+gStr(v)+" "+gCoords(cs))
		})
		presolver := pb.Build()
		// callbacks set on the builder afterwards belong to resolvers built afterwards
		pb.OnPlaceholderEncountered(func(string, string) { panic("callback of a later configuration") })
		rep = presolver.Resolve(ov.build())
	})
	if pn != "" {
		return Case{Kind: "placeholder-configured", Desc: map[string]any{"overlay": ov.desc(), "panic": pn}, Fail: []string{"panic in placeholder resolver: " + pn}, Nontrivial: true}
	}
	co := normMap(rep.Coordinates)
	return Case{Kind: "placeholder-configured", Desc: map[string]any{"overlay": ov.desc(), "filter": coqKf, "matcher": coqVm, "failed": rep.FailedKeys, "events": evs},
		Coq:  "CPhM " + coqKf + " " + coqVm + " " + ov.gallina() + " " + gStrs(rep.FailedKeys) + " " + gCoordMap(co) + " [" + strings.Join(evs, "; ") + "]",
		Fail: fail, Nontrivial: len(evs) >= 2}
}

// the dependency resolver built with a mention matcher of the caller's and the callback
func c19DepConfigured(r *rand.Rand) Case {
	src := c19GenOverlay(r, "s")
	var refs []c19Overlay
	for i, n := 0, r.Intn(3); i < n; i++ {
		refs = append(refs, c19GenOverlay(r, fmt.Sprintf("r%d_", i)))
	}
	coqMm := "MDefault"
	var mm func(string) dom.SearchValueFunc
	if r.Intn(2) == 0 { // "the value IS the key" (a string equal to the key's path)
		coqMm = "MEquals"
		mm = func(k string) dom.SearchValueFunc {
			return func(v interface{}) bool { s, ok := v.(string); return ok && s == k }
		}
		// make it bite: some value spells a key of the pool
		if len(src.layers) > 0 {
			src.layers[0]["zz-names-a-key"] = c19Pool[r.Intn(len(c19Pool))]
		}
	}
	var evs []string
	var rep *analytics.DependencyResolutionReport
	pn := guard(func() {
		b := analytics.NewDependencyResolverBuilder().OnPlaceholderEncountered(func(k string, cs dom.Coordinates) {
			evs = append(evs, "("+gStr(k)+", "+gCoords(cs)+")")
		})
		if mm != nil {
			b = b.PlaceholderMatcher(mm)
		}
		var rd []dom.OverlayDocument
		for _, x := range refs {
			rd = append(rd, x.build())
		}
		rep = b.Build().Resolve(src.build(), rd...)
	})
	if pn != "" {
		return Case{Kind: "dependency-configured", Desc: map[string]any{"src": src.desc(), "panic": pn}, Fail: []string{"panic in dependency resolver: " + pn}, Nontrivial: true}
	}
	var refG []string
	for _, x := range refs {
		refG = append(refG, x.gallina())
	}
	nm := normMap(rep.Map)
	return Case{Kind: "dependency-configured", Desc: map[string]any{"src": src.desc(), "matcher": coqMm, "all": rep.AllKeys, "orphans": rep.OrphanKeys, "map": nm, "events": evs},
		Coq:  "CDepM " + coqMm + " " + src.gallina() + " [" + strings.Join(refG, "; ") + "] " + gStrs(rep.AllKeys) + " " + gStrs(rep.OrphanKeys) + " " + gCoordMap(nm) + " [" + strings.Join(evs, "; ") + "]",
		Fail: nil, Nontrivial: len(evs) >= 1}
}

func c19Impact(r *rand.Rand) Case {
	ov := c19GenOverlay(r, "l")
	var keys []string
	for _, k := range append(append([]string{}, c19Pool...), "zz") {
		if r.Intn(2) == 0 {
			keys = append(keys, k)
		}
	}
	var res normCoords
	var fail []string
	pn := guard(func() {
		for i := 0; i < 5; i++ {
			ia := analytics.NewImpactAnalysisBuilder().Build()
			var m map[string]dom.Coordinates
			if i%2 == 0 || len(ov.names) == 0 {
				m = ia.ResolveOverlayDocument(ov.build(), keys)
			} else {
				// through a document set that changes between two questions put to ONE analysis object
				ds := analytics.NewDocumentSet()
				_ = ds.AddDocument(ov.names[0], dom.Builder().Container())
				_ = ia.ResolveDocumentSet(ds, keys)
				for li, n := range ov.names {
					if i == 3 && li == len(ov.names)-1 {
						// ... or whose last document is registered empty, asked about, and then filled IN PLACE by the application
						_ = ds.AddDocument(n, dom.Builder().Container())
						_ = ia.ResolveDocumentSet(ds, keys)
						for _, k := range sortedKeys(ov.layers[li]) {
							ds.NamedDocument(n).AddValue(k, anyToNode(ov.layers[li][k]))
						}
						continue
					}
					_ = ds.AddDocument(n, anyToContainer(ov.layers[li]))
				}
				// (a must-create add of a name that is taken is refused and changes nothing: the reports are as before)
				if err := ds.AddDocument(ov.names[len(ov.names)-1], dom.Builder().Container(), analytics.MustCreate()); err == nil {
					fail = append(fail, "a must-create add of a registered name was accepted")
				}
				m = ia.ResolveDocumentSet(ds, keys)
			}
			nm := normMap(m)
			if i == 0 {
				res = nm
			} else if !reflect.DeepEqual(nm, res) {
				fail = append(fail, "repeated impact analyses differ")
			}
		}
	})
	if pn != "" {
		return Case{Kind: "impact", Desc: map[string]any{"overlay": ov.desc(), "panic": pn}, Fail: []string{"panic in impact analysis: " + pn}, Nontrivial: true}
	}
	return Case{Kind: "impact", Desc: map[string]any{"overlay": ov.desc(), "keys": keys, "result": res},
		Coq: "CImpact " + ov.gallina() + " " + gStrs(keys) + " " + gCoordMap(res), Fail: fail, Nontrivial: mentionsTwo(ov)}
}

func init() {
	register(&Prop{
		ID:   "C19",
		Rule: "overlays of 1-3 layers over a pool of 5 leaf keys (a, b, c.d, e, f.g); string values are templates mentioning later pool keys (acyclic), unknown keys, defaults, repeated mentions, unterminated placeholders, defaults containing placeholders, look-alike keys and default forms before a plain mention, adjacent placeholders (unknown first), placeholder-like noise, a closing brace before the first placeholder; resolvers built from builders that are re-configured afterwards; impact analysis also through a document set changed between two calls on one analysis object (documents added, or a registered document filled in place); plus ints/bools/plain strings. kinds: dependency (source + 0-2 reference overlays; 20 repeated runs must give equal reports; AllKeys = OrphanKeys ⊎ keys(Map)), placeholder (key filters: all / prefix c / not a; 20 repeated runs), impact (requested key subsets incl. an unknown key), placeholder-configured (key filter x value matcher {default, every value, contains a closing brace} with OnPlaceholderEncountered / OnResolutionFailure recording every call: report and the multiset of events vs ph_resolve_m / ph_events; a failure callback never without the encounter callback), dependency-configured (mention matcher {default, the value IS the key} with the callback recording every call: report and events vs dep_resolve_m / dep_events). Sorted fields compared exactly, coordinate lists as multisets. Non-trivial: some value mentions >= 2 keys. Distinct by Gallina term. Keys defined as the empty string, a key below a mapping inside a list, layers that disagree about the kind of a node, upper layers that say null where a lower layer has a value. Placeholder names computed by a nested placeholder, mentions of items of lists nested in lists, reference documents passed as a prefix of a caller-owned slice and then in full.",
		Gen: func(r *rand.Rand, tier string, idx int) Case {
			switch idx % 6 {
			case 0:
				return c19Dep(r)
			case 1:
				return c19Ph(r)
			case 3:
				return c19DepConfigured(r)
			case 4:
				return c19PhConfigured(r)
			default:
				return c19Impact(r)
			}
		},
	})
}
