package main

import (
	"fmt"
	"math"
	"sort"
	"strings"
	"unicode/utf8"
)

// gStr prints a Go string (bytes) as a Coq string term.
func gStr(s string) string {
	// a Coq string literal is its source bytes: valid UTF-8 without control characters goes in as it is
	printable := utf8.ValidString(s)
	for i := 0; i < len(s); i++ {
		if s[i] < 0x20 || s[i] == 0x7f {
			printable = false
			break
		}
	}
	if printable {
		return "\"" + strings.ReplaceAll(s, "\"", "\"\"") + "\""
	}
	var sb strings.Builder
	sb.WriteString("(S_ [")
	for i := 0; i < len(s); i++ {
		if i > 0 {
			sb.WriteString(";")
		}
		fmt.Fprintf(&sb, "%d", s[i])
	}
	sb.WriteString("]%nat)")
	return sb.String()
}

func gList[T any](xs []T, f func(T) string) string {
	var sb strings.Builder
	sb.WriteString("[")
	for i, x := range xs {
		if i > 0 {
			sb.WriteString("; ")
		}
		sb.WriteString(f(x))
	}
	sb.WriteString("]")
	return sb.String()
}

func gStrs(xs []string) string { return gList(xs, gStr) }

func gRunes(rs []rune) string {
	return gList(rs, func(r rune) string { return fmt.Sprintf("%d", r) }) + "%N"
}

func gNat(n int) string { return fmt.Sprintf("%d", n) }

func gBool(b bool) string {
	if b {
		return "true"
	}
	return "false"
}

func gOpt[T any](x *T, f func(T) string) string {
	if x == nil {
		return "None"
	}
	return "(Some " + f(*x) + ")"
}

func gZ(z int64) string {
	if z < 0 {
		return fmt.Sprintf("(%d)%%Z", z)
	}
	return fmt.Sprintf("%d%%Z", z)
}

// Opaque is a leaf value of a kind the model does not interpret (e.g. time.Time).
type Opaque struct{ Tag string }

// gScalar prints a plain scalar.
func gScalar(v any) string {
	switch x := v.(type) {
	case nil:
		return "SNull"
	case bool:
		return "(SBool " + gBool(x) + ")"
	case int:
		return "(SInt " + gZ(int64(x)) + ")"
	case int64:
		return "(SInt " + gZ(x) + ")"
	case uint64: // (as normScalar reads it back)
		return "(SInt " + gZ(int64(x)) + ")"
	case float64:
		return fmt.Sprintf("(SFlt %d%%Z)", math.Float64bits(x))
	case string:
		return "(SStr " + gStr(x) + ")"
	case Opaque:
		return "(SOpaque " + gStr(x.Tag) + ")"
	default:
		return "(SOpaque " + gStr(fmt.Sprintf("%T:%v", v, v)) + ")"
	}
}

// gNode prints a plain value (map[string]any / []any / scalar) as a Model.Doc.node, keys sorted.
func gNode(v any) string {
	switch x := v.(type) {
	case map[string]any:
		ks := make([]string, 0, len(x))
		for k := range x {
			ks = append(ks, k)
		}
		sort.Strings(ks)
		var sb strings.Builder
		sb.WriteString("(Con [")
		for i, k := range ks {
			if i > 0 {
				sb.WriteString("; ")
			}
			sb.WriteString("(" + gStr(k) + ", " + gNode(x[k]) + ")")
		}
		sb.WriteString("])")
		return sb.String()
	case []any:
		return "(Lst " + gList(x, gNode) + ")"
	default:
		return "(Leaf " + gScalar(v) + ")"
	}
}

func gOptNode(v any, present bool) string {
	if !present {
		return "None"
	}
	return "(Some " + gNode(v) + ")"
}
