package main

// C18, the batch forms of the DocumentSet interface: AddDocumentsFromDirectory, AddDocumentsFromManifest,
// AddPropertiesFromManifest (model: ds_add_files / ds_add_items / props_doc in Model/DocSet.v).

import (
	"encoding/json"
	"fmt"
	"math/rand"
	"os"
	"path/filepath"
	"reflect"
	"sort"
	"strings"

	"github.com/rkosegi/yaml-toolkit/analytics"
	"github.com/rkosegi/yaml-toolkit/common"
	"github.com/rkosegi/yaml-toolkit/dom"
	"gopkg.in/yaml.v3"
)

// encoding/json reads every number as float64; documents that travel as JSON hold no numbers
func jsonSafe(v any) any {
	switch x := v.(type) {
	case map[string]any:
		m := map[string]any{}
		for k, c := range x {
			m[k] = jsonSafe(c)
		}
		return m
	case []any:
		l := make([]any, len(x))
		for i, c := range x {
			l[i] = jsonSafe(c)
		}
		return l
	case int, int64, uint64, float64:
		return fmt.Sprint(x)
	default:
		return v
	}
}

const c18Junk = "key: [unclosed\nmore: {junk that never closes\n"

type c18File struct {
	name string         // base name
	doc  map[string]any // nil: the content does not decode
	text string
}

func c18GenFile(r *rand.Rand, o genOpts, base string) c18File {
	ext := []string{".yaml", ".yaml", ".yml", ".json"}[r.Intn(4)]
	f := c18File{name: base + ext}
	if r.Intn(6) == 0 {
		f.text = c18Junk
		return f
	}
	doc := genDoc(r, o)
	if ext == ".json" {
		doc = jsonSafe(doc).(map[string]any)
		bs, _ := json.Marshal(doc)
		f.text = string(bs)
	} else {
		bs, _ := yaml.Marshal(doc)
		f.text = string(bs)
	}
	f.doc = doc
	return f
}

func c18Opts(r *rand.Rand) (opts []analytics.AddLayerOpt, tags []string, polS string) {
	for _, t := range c18Tags {
		if r.Intn(3) == 0 {
			tags = append(tags, t)
		}
	}
	if len(tags) > 0 || r.Intn(2) == 0 {
		opts = append(opts, analytics.WithTags(tags...))
	}
	polS = "PNone"
	switch r.Intn(4) {
	case 1:
		opts = append(opts, analytics.MergeTags())
		polS = "PMergeTags"
	case 2:
		opts = append(opts, analytics.MustCreate())
		polS = "PMustCreate"
	}
	r.Shuffle(len(opts), func(a, b int) { opts[a], opts[b] = opts[b], opts[a] })
	return
}

func c18Batch(r *rand.Rand, idx int) Case {
	root := filepath.Join(procTmp("c18batch"), fmt.Sprint(idx))
	_ = os.MkdirAll(root, 0o755)
	defer os.RemoveAll(root)
	ds := analytics.NewDocumentSet()
	o := defaultOpts()
	o.keys = c03Keys
	o.maxDepth = 2
	o.floats = false
	var fail, descs, coqs, obs []string
	var known []string // names that may be registered
	nontrivial := false
	gFiles := func(fs []string, docs []map[string]any) string {
		var parts []string
		for i, f := range fs {
			parts = append(parts, "("+gStr(f)+", "+gOptNode(any(docs[i]), docs[i] != nil)+")")
		}
		return "[" + strings.Join(parts, "; ") + "]"
	}
	// a directory read twice with nothing on disk changed in between, while the application edited one of the served
	// documents in place: the second read registers what the FILES hold (default policy: the newly read document is served)
	if r.Intn(3) == 0 {
		if pn := guard(func() {
			dir := filepath.Join(root, "reread")
			_ = os.MkdirAll(dir, 0o755)
			var files []string
			var docs []map[string]any
			for i := 0; i < 2; i++ {
				doc := genDoc(r, o)
				bs, _ := yaml.Marshal(doc)
				p := filepath.Join(dir, fmt.Sprintf("%d-cfg.yaml", i))
				_ = os.WriteFile(p, bs, 0o644)
				files, docs = append(files, p), append(docs, doc)
			}
			for round := 0; round < 2; round++ {
				err := ds.AddDocumentsFromDirectory(filepath.Join(dir, "*.yaml"), common.DefaultFileDecoderProvider)
				descs = append(descs, fmt.Sprintf("AddDocumentsFromDirectory(reread/*.yaml) err=%v", err))
				coqs = append(coqs, "DAddFiles "+gFiles(files, docs)+" [] PNone")
				obs = append(obs, "DObsOk "+gBool(err == nil))
				if round == 0 {
					if d := ds.NamedDocument(files[r.Intn(2)]); d != nil && !reflect.ValueOf(d).IsNil() {
						d.AddValue("edited-in-place-by-the-application", dom.LeafNode("x"))
						d.Remove(c03Keys[0])
					}
				}
			}
			known = append(known, files...)
			nontrivial = true
		}); pn != "" {
			fail = append(fail, "panic: "+pn)
		}
	}
	for step, n := 0, 2+r.Intn(5); step < n && len(fail) == 0; step++ {
		pn := guard(func() {
			switch k := r.Intn(11); {
			case k >= 9: // one file, under the path exactly as the caller spells it (a document name is a name, not a cleaned path)
				dir := filepath.Join(root, "single")
				_ = os.MkdirAll(dir, 0o755)
				f := c18GenFile(r, o, c18Names[r.Intn(3)])
				_ = os.WriteFile(filepath.Join(dir, f.name), []byte(f.text), 0o644)
				p := filepath.Join(dir, f.name)
				switch r.Intn(4) {
				case 0:
					p = dir + "/./" + f.name
				case 1:
					p = dir + "//" + f.name
				case 2:
					p = filepath.Join(dir, "no-such-"+f.name)
					f.doc = nil
				}
				opts, tags, polS := c18Opts(r)
				err := ds.AddDocumentFromFile(p, common.DefaultFileDecoderProvider(p), opts...)
				known = append(known, p)
				descs = append(descs, fmt.Sprintf("AddDocumentFromFile(%s, tags=%v, %s) err=%v", strings.TrimPrefix(p, root), tags, polS, err))
				coqs = append(coqs, "DAddFiles "+gFiles([]string{p}, []map[string]any{f.doc})+" "+gStrs(tags)+" "+polS)
				obs = append(obs, "DObsOk "+gBool(err == nil))
			case k <= 2: // a directory; one of two, so that paths are met again
				dir := filepath.Join(root, fmt.Sprintf("dir%d", r.Intn(2)))
				_ = os.MkdirAll(dir, 0o755)
				for i, m := 0, 1+r.Intn(4); i < m; i++ {
					f := c18GenFile(r, o, fmt.Sprintf("%02d-%s", r.Intn(5), c18Names[r.Intn(3)]))
					_ = os.WriteFile(filepath.Join(dir, f.name), []byte(f.text), 0o644)
				}
				pat := []string{"*", "*.yaml", "*.y*ml", "0*", "*.json", "nothing-*"}[r.Intn(6)]
				// what the pattern selects, in the order of the directory listing, and what each file holds
				ents, _ := os.ReadDir(dir)
				var names []string
				for _, e := range ents {
					names = append(names, e.Name())
				}
				sort.Strings(names)
				var files []string
				var docs []map[string]any
				for _, nm := range names {
					if ok, _ := filepath.Match(pat, nm); !ok {
						continue
					}
					p := filepath.Join(dir, nm)
					files = append(files, p)
					bs, _ := os.ReadFile(p)
					var d map[string]any
					if string(bs) != c18Junk {
						if strings.HasSuffix(nm, ".json") {
							_ = json.Unmarshal(bs, &d)
							if d != nil {
								d = jsonSafe(d).(map[string]any)
							}
						} else {
							_ = yaml.Unmarshal(bs, &d)
						}
						if d == nil {
							d = map[string]any{}
						}
					}
					docs = append(docs, d)
				}
				opts, tags, polS := c18Opts(r)
				err := ds.AddDocumentsFromDirectory(filepath.Join(dir, pat), common.DefaultFileDecoderProvider, opts...)
				known = append(known, files...)
				if len(files) >= 2 {
					nontrivial = true
				}
				descs = append(descs, fmt.Sprintf("AddDocumentsFromDirectory(%s/%s: %d files, tags=%v, %s) err=%v", filepath.Base(dir), pat, len(files), tags, polS, err))
				coqs = append(coqs, "DAddFiles "+gFiles(files, docs)+" "+gStrs(tags)+" "+polS)
				obs = append(obs, "DObsOk "+gBool(err == nil))
			case k <= 4: // the text items of a manifest, each a document
				mf := filepath.Join(root, fmt.Sprintf("manifest%d.yaml", r.Intn(2)))
				items := map[string]any{}
				docs := map[string]map[string]any{}
				for i, m := 0, r.Intn(4); i < m; i++ {
					f := c18GenFile(r, o, c18Names[r.Intn(3)])
					items[f.name] = f.text
					docs[f.name] = f.doc
				}
				kind, sect := "ConfigMap", "data"
				if r.Intn(2) == 0 {
					kind, sect = "Secret", "stringData"
				}
				mdoc := map[string]any{"apiVersion": "v1", "kind": kind, "metadata": map[string]any{"name": "m"}}
				if len(items) > 0 || r.Intn(2) == 0 {
					mdoc[sect] = items
				}
				bs, _ := yaml.Marshal(mdoc)
				missing := r.Intn(8) == 0
				if missing {
					mf = filepath.Join(root, "no-such-manifest.yaml")
				} else {
					_ = os.WriteFile(mf, bs, 0o644)
				}
				before := map[string]bool{}
				for _, nme := range ds.AsOne().LayerNames() {
					before[nme] = true
				}
				opts, tags, polS := c18Opts(r)
				err := ds.AddDocumentsFromManifest(mf, common.DefaultFileDecoderProvider, opts...)
				if missing != (err != nil) {
					fail = append(fail, fmt.Sprintf("AddDocumentsFromManifest(missing=%v) returned %v", missing, err))
				}
				// the items are handed out by a Go map: the order in which they were met shows in the new layers
				var order []string
				seen := map[string]bool{}
				for _, nme := range ds.AsOne().LayerNames() {
					if it, ok := strings.CutPrefix(nme, mf+"/"); ok && !before[nme] {
						if _, isItem := items[it]; isItem && !seen[it] {
							order = append(order, it)
							seen[it] = true
						}
					}
				}
				for _, it := range sortedKeys(items) {
					if !seen[it] {
						order = append(order, it)
					}
				}
				itemsS := "None"
				if !missing {
					var parts []string
					for _, it := range order {
						parts = append(parts, "("+gStr(it)+", "+gOptNode(any(docs[it]), docs[it] != nil)+")")
						known = append(known, mf+"/"+it)
					}
					itemsS = "(Some [" + strings.Join(parts, "; ") + "])"
					if len(order) >= 2 {
						nontrivial = true
					}
				}
				descs = append(descs, fmt.Sprintf("AddDocumentsFromManifest(%s %s, items=%v, tags=%v, %s) err=%v", kind, filepath.Base(mf), order, tags, polS, err))
				coqs = append(coqs, "DAddItems "+gStr(mf)+" "+itemsS+" "+gStrs(tags)+" "+polS)
				obs = append(obs, "DObsOk "+gBool(err == nil))
			case k == 5: // a manifest read as ONE properties document
				mf := filepath.Join(root, fmt.Sprintf("props%d.yaml", r.Intn(2)))
				pool := []string{"app.name", "app.port", "db.url", "db.pool.size", "hosts[0]", "hosts[1]", "plain", "srv[0].name", "srv[0].port"}
				items := map[string]any{}
				for _, p := range pool {
					if r.Intn(3) == 0 {
						items[p] = c16Vals[r.Intn(len(c16Vals))]
					}
				}
				if _, two := items["hosts[1]"]; two { // a list without its first item has no spelling as properties
					items["hosts[0]"] = "h0"
				}
				mdoc := map[string]any{"apiVersion": "v1", "kind": "ConfigMap", "metadata": map[string]any{"name": "p"}, "data": items}
				bs, _ := yaml.Marshal(mdoc)
				missing := r.Intn(8) == 0
				if missing {
					mf = filepath.Join(root, "no-such-props.yaml")
				} else {
					_ = os.WriteFile(mf, bs, 0o644)
				}
				opts, tags, polS := c18Opts(r)
				err := ds.AddPropertiesFromManifest(mf, opts...)
				itemsS := "None"
				if !missing {
					var parts []string
					for _, p := range sortedKeys(items) {
						parts = append(parts, "("+gStr(p)+", "+gStr(items[p].(string))+")")
					}
					itemsS = "(Some [" + strings.Join(parts, "; ") + "])"
					known = append(known, mf)
					nontrivial = nontrivial || len(items) >= 2
				}
				descs = append(descs, fmt.Sprintf("AddPropertiesFromManifest(%s, %v, tags=%v, %s) err=%v", filepath.Base(mf), items, tags, polS, err))
				coqs = append(coqs, "DAddProps "+gStr(mf)+" "+itemsS+" "+gStrs(tags)+" "+polS)
				obs = append(obs, "DObsOk "+gBool(err == nil))
			case k == 6:
				var ts []string
				for _, t := range append([]string{"*"}, c18Tags...) {
					if r.Intn(3) == 0 {
						ts = append(ts, t)
					}
				}
				ov := ds.TaggedSubset(ts...)
				descs = append(descs, fmt.Sprintf("TaggedSubset(%v)", ts))
				coqs = append(coqs, "DTagged "+gStrs(ts))
				obs = append(obs, gOverlayObs(ov))
			case k == 7:
				ov := ds.AsOne()
				descs = append(descs, "AsOne()")
				coqs = append(coqs, "DAsOne")
				obs = append(obs, gOverlayObs(ov))
			default:
				name := "ghost"
				if len(known) > 0 {
					name = known[r.Intn(len(known))]
				}
				d := ds.NamedDocument(name)
				isNil := d == nil || reflect.ValueOf(d).IsNil()
				var dv any
				if !isNil {
					dv = nodeToAny(d)
				}
				descs = append(descs, "NamedDocument("+name+")")
				coqs = append(coqs, "DNamed "+gStr(name))
				obs = append(obs, "DObsDoc "+gOptNode(dv, !isNil))
			}
		})
		if pn != "" {
			fail = append(fail, "panic: "+pn)
		}
	}
	// the whole set once more at the end
	if len(fail) == 0 {
		if pn := guard(func() {
			coqs = append(coqs, "DAsOne")
			obs = append(obs, gOverlayObs(ds.AsOne()))
			descs = append(descs, "AsOne()")
		}); pn != "" {
			fail = append(fail, "panic in AsOne(): "+pn)
		}
	}
	return Case{Kind: "docset-batch", Desc: map[string]any{"steps": descs},
		Coq:  "CDocSet [" + strings.Join(coqs, "; ") + "] [" + strings.Join(obs, "; ") + "]",
		Fail: fail, Nontrivial: nontrivial}
}
