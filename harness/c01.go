package main

import (
	"bytes"
	"errors"
	"fmt"
	"io"
	"math"
	"math/rand"
	"reflect"
	"regexp"
	"sort"
	"strings"
	"time"
	"unicode/utf16"

	"encoding/json"
	"github.com/rkosegi/yaml-toolkit/common"
	"github.com/rkosegi/yaml-toolkit/dom"
	"gopkg.in/yaml.v3"
)

// gGval prints a generic Go value as a Model.Codec.gval
func gGval(v any) string {
	switch x := v.(type) {
	case nil:
		return "GNil"
	case bool:
		return "(GBool " + gBool(x) + ")"
	case int:
		return "(GInt " + gZ(int64(x)) + ")"
	case int64:
		return "(GInt " + gZ(x) + ")"
	case float64:
		return fmt.Sprintf("(GFlt %d%%Z)", math.Float64bits(x))
	case string:
		return "(GStr " + gStr(x) + ")"
	case []any:
		return "(GSlice " + gList(x, gGval) + ")"
	case map[string]any:
		ks := sortedKeys(x)
		var sb strings.Builder
		sb.WriteString("(GMap [")
		for i, k := range ks {
			if i > 0 {
				sb.WriteString("; ")
			}
			sb.WriteString("(" + gStr(k) + ", " + gGval(x[k]) + ")")
		}
		sb.WriteString("])")
		return sb.String()
	case Opaque:
		return "(GOther " + gStr(x.Tag) + ")"
	default:
		return "(GOther " + gStr(fmt.Sprintf("%T:%v", v, v)) + ")"
	}
}

// normalise "other" values so that impl output and input print alike
func normGeneric(v any) any {
	switch x := v.(type) {
	case map[string]any:
		m := map[string]any{}
		for k, c := range x {
			m[k] = normGeneric(c)
		}
		return m
	case []any:
		l := make([]any, len(x))
		for i, c := range x {
			l[i] = normGeneric(c)
		}
		return l
	default:
		return normScalar(v)
	}
}

func countScalars(v any) int {
	switch x := v.(type) {
	case map[string]any:
		n := 0
		for _, c := range x {
			n += countScalars(c)
		}
		return n
	case []any:
		n := 0
		for _, c := range x {
			n += countScalars(c)
		}
		return n
	default:
		return 1
	}
}

func hasNullInList(v any, inList bool) bool {
	switch x := v.(type) {
	case map[string]any:
		if inList && len(x) == 0 {
			return true
		}
		for _, c := range x {
			if hasNullInList(c, false) {
				return true
			}
		}
	case []any:
		if inList && len(x) == 0 {
			return true
		}
		for _, c := range x {
			if hasNullInList(c, true) {
				return true
			}
		}
	case nil:
		return inList
	}
	return false
}

// Documents converted EARLIER and edited since are other documents: what a caller adds below an empty mapping or list of
// one of them (top level, member, list item, or the node DefaultNodeDecoderFn makes of an empty map) must not show in
// any value converted afterwards.
func c01EditEarlier() (fail []string) {
	if pn := guard(func() {
		e := dom.Builder().FromMap(map[string]any{})
		e.AddValue("stray-top", dom.LeafNode("x"))
		l := dom.Builder().FromMap(map[string]any{"items": []any{map[string]any{}, []any{}}, "m": map[string]any{}})
		l.AddValueAt("items[0].stray-item", dom.LeafNode("x"))
		l.AddValueAt("m.stray-member", dom.LeafNode("x"))
		l.AddValueAt("items[1][0]", dom.LeafNode("x"))
		if cb, ok := dom.DefaultNodeDecoderFn(map[string]any{}).(dom.ContainerBuilder); ok {
			cb.AddValue("stray-decoded", dom.LeafNode("x"))
		}
		t, _ := dom.Builder().FromReader(strings.NewReader("items: [{}, []]\nm: {}\n"), dom.DefaultYamlDecoder)
		if t != nil {
			t.AddValueAt("items[0].stray-text", dom.LeafNode("x"))
			t.AddValueAt("m.stray-text", dom.LeafNode("x"))
		}
		for _, probe := range []map[string]any{{}, {"items": []any{map[string]any{}, []any{}}, "m": map[string]any{}}, {"l": []any{[]any{map[string]any{}}}}} {
			if back := dom.Builder().FromMap(deepCopy(probe).(map[string]any)).AsMap(); !reflect.DeepEqual(back, probe) {
				fail = append(fail, fmt.Sprintf("after documents converted earlier were edited, AsMap(FromMap(%v)) = %v", probe, back))
			}
		}
		if n := dom.DefaultNodeDecoderFn(map[string]any{}); n == nil || !n.IsContainer() || len(n.(dom.Container).Children()) != 0 {
			fail = append(fail, "DefaultNodeDecoderFn of an empty map is not an empty mapping any more")
		}
	}); pn != "" {
		fail = append(fail, "panic while editing documents converted earlier: "+pn)
	}
	return fail
}

func c01Round(m map[string]any, kind string) Case {
	var back map[string]any
	var d dom.ContainerBuilder
	fail := c01EditEarlier()
	if pn := guard(func() { d = dom.Builder().FromMap(m); back = d.AsMap() }); pn != "" {
		return Case{Kind: kind, Desc: map[string]any{"m": fmt.Sprint(m), "panic": pn}, Fail: []string{"panic in FromMap/AsMap: " + pn}, Nontrivial: true,
			Coq: "CRound " + gGval(normGeneric(m)) + " GNil"}
	}
	// the exported value is the caller's: a consumer that fills in defaults (also inside empty
	// mappings and lists) must not change what the next export — of this or of any other document — gives
	if pn := guard(func() {
		scribble(d.AsMap())
		if again := d.AsMap(); !reflect.DeepEqual(again, back) {
			fail = append(fail, "AsMap() after a consumer wrote into an earlier AsMap() result differs from the first export")
		}
	}); pn != "" {
		fail = append(fail, "panic around a second AsMap: "+pn)
	}
	if !reflect.DeepEqual(back, m) {
		if hasIndexKey(m) {
			fail = append(fail, "AsMap(FromMap(m)) != m: member-name-ending-in-[n]-is-read-as-a-list-position")
		} else {
			fail = append(fail, "AsMap(FromMap(m)) != m")
		}
	}
	// (flattened paths are only injective for path-safe member names: C02's domain)
	if allKeysSafe(m) && len(d.Flatten()) != countScalars(m) {
		fail = append(fail, fmt.Sprintf("|Flatten| = %d but the value has %d scalar positions", len(d.Flatten()), countScalars(m)))
	}
	nm := normGeneric(m)
	return Case{Kind: kind, Desc: map[string]any{"m": nm, "back": normGeneric(back)},
		Coq: "CRound " + gGval(nm) + " " + gGval(normGeneric(back)), Fail: fail, Nontrivial: hasNullInList(m, false)}
}

func c01Dom(m map[string]any) Case {
	var d dom.ContainerBuilder
	if pn := guard(func() { d = dom.Builder().FromMap(m) }); pn != "" {
		return Case{Kind: "dom", Desc: map[string]any{"panic": pn}, Fail: []string{"panic in FromMap: " + pn}, Nontrivial: true}
	}
	got := nodeToAny(d)
	nm := normGeneric(m)
	return Case{Kind: "dom", Desc: map[string]any{"m": nm, "dom": got}, Coq: "CDom " + gGval(nm) + " " + gNode(got), Nontrivial: hasNullInList(m, false)}
}

func c01AsMap(m map[string]any) Case {
	d := anyToContainer(m)
	got := d.AsMap()
	var fail []string
	if !reflect.DeepEqual(got, m) {
		fail = append(fail, "AsMap of a builder-made document differs from the plain tree")
	}
	return Case{Kind: "asmap", Desc: map[string]any{"doc": m, "asmap": normGeneric(got)},
		Coq: "CAsMap " + gNode(m) + " " + gGval(normGeneric(got)), Fail: fail, Nontrivial: hasNullInList(m, false)}
}

// ---- texts
var c01Texts = []string{
	"a: 1\n", "{}", "", "a: [1, null, 3]\n", "date: 2001-12-14\n", "ts: 2001-12-14t21:59:43.10-05:00\n",
	"base: &b {x: 1}\nuse: *b\n", "base: &b {x: 1}\nd:\n  <<: *b\n  y: 2\n", "1: one\n2: two\n", "a:\n  1: x\n  true: y\n",
	"a: {? [1,2] : v}\n", "--- \na: 1\n---\nb: 2\n", "a:\t1\n", "a: !!binary aGVsbG8=\n", "a: 0x1F\nb: 0o17\nc: 1e3\nd: .inf\n",
	"a: ~\nb: null\nc: Null\nd:\n", "a: [[], {}, [[]], [{}]]\n", "[1,2,3]\n", "just a string\n", "a: 'x\n", "{\"a\": [1, 2.5, \"x\", null, true], \"b\": {}}",
	"{\"a\": 1", "a: 18446744073709551615\n", "a: -9223372036854775808\n", "? a\n: 1\n", "a: |\n  multi\n  line\nb: >\n  folded\n  text\n",
	// a document that is null as a whole is a document: the decoders accept it (as "nothing"), so does the loader
	"---\n", "~\n", "null\n", "--- ~\n", "# only a comment\n---\n", "null", " null ", "--- null\n...\n",
	"\x00\x01\x02", "a: \xff\xfe\n", "a: b: c\n", "- a\n- b\n", "a: [1, 2\n", "a: 2001-12-14\nb: [2002-01-01, x]\n", "a: {b: {c: {d: [1, {e: null}]}}}\n",
}

func c01Text(t string, isJSON bool) Case {
	decodeFn := dom.DefaultYamlDecoder
	if isJSON {
		decodeFn = dom.DefaultJsonDecoder
	}
	ctl := map[string]any{}
	var cerr error
	// control decode straight through the underlying decoder packages (not through the toolkit's wrappers)
	cpn := guard(func() {
		if isJSON {
			cerr = json.NewDecoder(strings.NewReader(t)).Decode(&ctl)
		} else {
			cerr = yaml.NewDecoder(strings.NewReader(t)).Decode(&ctl)
		}
	})
	if ctl == nil { // a document that is null as a whole: the decoders reset the map — a mapping without entries
		ctl = map[string]any{}
	}
	var d dom.ContainerBuilder
	var err error
	var fail []string
	pn := guard(func() { d, err = dom.Builder().FromReader(strings.NewReader(t), decodeFn) })
	if cpn != "" {
		// the decoder itself panics: outside the toolkit
		return Case{Kind: "text", Desc: map[string]any{"text": t, "decoder_panic": cpn}, Nontrivial: false}
	}
	if pn != "" {
		fail = append(fail, "panic in FromReader: "+pn)
		return Case{Kind: "text", Desc: map[string]any{"text": t, "panic": pn}, Fail: fail, Nontrivial: true}
	}
	if (cerr != nil) != (err != nil) {
		fail = append(fail, "FromReader error differs from the control decode's")
	}
	coq := ""
	desc := map[string]any{"text": t, "json": isJSON, "error": err != nil}
	if err == nil && cerr == nil {
		var back map[string]any
		if pn := guard(func() { back = d.AsMap() }); pn != "" {
			fail = append(fail, "panic in AsMap: "+pn)
		} else if !reflect.DeepEqual(back, ctl) {
			fail = append(fail, "AsMap(FromReader(t)) != decode(t)")
		}
		coq = "CRound " + gGval(normGeneric(ctl)) + " " + gGval(normGeneric(back))
		desc["decoded"] = normGeneric(ctl)
		// the same through the codecs chosen by file suffix, and List.AsSlice / the node encoder on every list
		suffix := map[bool]string{true: "doc.json", false: "doc.yaml"}[isJSON]
		if pn := guard(func() {
			d2, e2 := dom.Builder().FromReader(strings.NewReader(t), common.DefaultFileDecoderProvider(suffix))
			if e2 != nil || !reflect.DeepEqual(d2.AsMap(), ctl) {
				fail = append(fail, "decoding through common.DefaultFileDecoderProvider("+suffix+") differs from decode(t)")
			}
			var b1, b2 bytes.Buffer
			encFn := dom.DefaultYamlEncoder
			if isJSON {
				encFn = dom.DefaultJsonEncoder
			}
			e3 := d.Serialize(&b1, dom.DefaultNodeEncoderFn, encFn)
			e4 := d.Serialize(&b2, dom.DefaultNodeEncoderFn, common.DefaultFileEncoderProvider(suffix))
			if e3 != nil || e4 != nil || !bytes.Equal(b1.Bytes(), b2.Bytes()) {
				fail = append(fail, "serialising through common.DefaultFileEncoderProvider("+suffix+") differs from the default encoder")
			}
			if !reflect.DeepEqual(dom.DefaultNodeEncoderFn(d), any(ctl)) {
				fail = append(fail, "DefaultNodeEncoderFn(d) differs from decode(t)")
			}
			for k, c := range d.Children() {
				if l, ok := c.(dom.List); ok {
					if !reflect.DeepEqual(l.AsSlice(), ctl[k]) {
						fail = append(fail, "List.AsSlice of "+k+" differs from decode(t)["+k+"]")
					}
				}
			}
		}); pn != "" {
			fail = append(fail, "panic in the by-suffix codecs: "+pn)
		}
	}
	return Case{Kind: "text", Desc: desc, Coq: coq, Fail: fail, Nontrivial: err == nil && len(ctl) > 0, Key: t}
}

type failAfterW struct{ n int }

func (f *failAfterW) Write(p []byte) (int, error) {
	if len(p) <= f.n {
		f.n -= len(p)
		return len(p), nil
	}
	k := f.n
	f.n = 0
	return k, errors.New("write failed")
}

type failAfterR struct {
	data []byte
	n    int
}

func (f *failAfterR) Read(p []byte) (int, error) {
	if f.n <= 0 {
		return 0, errors.New("read failed")
	}
	k := len(p)
	if k > f.n {
		k = f.n
	}
	copy(p, f.data[:k])
	f.data = f.data[k:]
	f.n -= k
	return k, nil
}

var _ io.Reader = &failAfterR{}

// Extra: byte determinism and exhaustive stream-fault enumeration
func c01Extra(seed int64, tier string) ([]string, map[string]any) {
	var fail []string
	ndocs, reps := 12, 8
	if tier == "thorough" {
		ndocs, reps = 60, 20
	}
	faultPoints, detRuns := 0, 0
	o := defaultOpts()
	o.floats = true
	for i := 0; i < ndocs; i++ {
		r := caseRng(seed, 900000+i)
		m := genDoc(r, o)
		d := anyToContainer(m)
		for fi, encFn := range []dom.EncoderFunc{dom.DefaultYamlEncoder, dom.DefaultJsonEncoder} {
			var first []byte
			for k := 0; k < reps; k++ {
				var b bytes.Buffer
				// rebuild the document too: map iteration order differs between instances
				dd := dom.Builder().FromMap(m)
				if err := dd.Serialize(&b, dom.DefaultNodeEncoderFn, encFn); err != nil {
					fail = append(fail, fmt.Sprintf("Serialize failed on a healthy writer: %v", err))
					break
				}
				var b2 bytes.Buffer
				_ = d.Serialize(&b2, dom.DefaultNodeEncoderFn, encFn)
				if k == 0 {
					first = b.Bytes()
				}
				if !bytes.Equal(first, b.Bytes()) || !bytes.Equal(first, b2.Bytes()) {
					fail = append(fail, fmt.Sprintf("Serialize is not byte-deterministic (doc %d, encoder %d)", i, fi))
					break
				}
				detRuns++
			}
			// writer fails at every prefix length n < len(output): every byte has to be written, so
			// the failure necessarily happens and Serialize must return a non-nil error
			for n := 0; n < len(first); n++ {
				var err error
				pn := guard(func() { err = d.Serialize(&failAfterW{n: n}, dom.DefaultNodeEncoderFn, encFn) })
				faultPoints++
				if pn != "" || err == nil {
					fail = append(fail, fmt.Sprintf("writer failing after %d of %d bytes: Serialize returned err=%v (panic=%q) doc %d enc %d", n, len(first), err, pn, i, fi))
					break
				}
			}
			// reader fails at every prefix length below the end of the content proper (a decoder
			// need not read trailing white space): FromReader must return a non-nil error
			decFn := dom.DefaultYamlDecoder
			if fi == 1 {
				decFn = dom.DefaultJsonDecoder
			}
			content := len(bytes.TrimRight(first, " \n\t\r"))
			for n := 0; n < content; n++ {
				var err error
				pn := guard(func() {
					_, err = dom.Builder().FromReader(&failAfterR{data: append([]byte{}, first...), n: n}, decFn)
				})
				faultPoints++
				if pn != "" || err == nil {
					fail = append(fail, fmt.Sprintf("reader failing after %d of %d bytes: FromReader returned err=%v (panic=%q) doc %d dec %d", n, len(first), err, pn, i, fi))
					break
				}
			}
		}
	}
	// one large document per format (more than 4 MiB of text): nothing may be cut off silently, and a
	// stream that fails late still fails
	bigItems := 0
	for fi, js := range []bool{false, true} {
		items := make([]any, 0, 140000)
		for i := 0; i < 140000; i++ {
			items = append(items, fmt.Sprintf("item-%07d-abcdefghijklmnopqrstuvwxyz", i))
		}
		big := map[string]any{"head": "h", "items": items, "tail": map[string]any{"last": "z"}}
		var b bytes.Buffer
		decFn := dom.DefaultYamlDecoder
		if js {
			_ = json.NewEncoder(&b).Encode(big)
			decFn = dom.DefaultJsonDecoder
		} else {
			_ = yaml.NewEncoder(&b).Encode(big)
		}
		text := b.Bytes()
		d, err := dom.Builder().FromReader(bytes.NewReader(text), decFn)
		if err != nil {
			fail = append(fail, fmt.Sprintf("large document (%d bytes, format %d) does not load: %v", len(text), fi, err))
		} else if l, ok := d.Child("items").(dom.List); !ok || l.Size() != len(items) || d.Lookup("tail.last") == nil {
			fail = append(fail, fmt.Sprintf("large document (%d bytes, format %d) lost entries on load", len(text), fi))
		} else {
			bigItems += l.Size()
		}
		for _, n := range []int{len(text) / 2, len(text) - 4096, len(text) - 64} {
			var ferr error
			pn := guard(func() {
				_, ferr = dom.Builder().FromReader(&failAfterR{data: text, n: n}, decFn)
			})
			faultPoints++
			if pn != "" || ferr == nil {
				fail = append(fail, fmt.Sprintf("reader failing after %d of %d bytes of a large document: FromReader returned err=%v (panic=%q)", n, len(text), ferr, pn))
			}
		}
	}
	sort.Strings(fail)
	return fail, map[string]any{"fault_points_enumerated": faultPoints, "determinism_runs": detRuns, "fault_docs": ndocs, "large_document_items": bigItems}
}

// member names are arbitrary strings: dots, slashes, blanks, the empty name, non-ASCII
var c01OddKeys = []string{"a", "a.b", "b", "", "x.y.z", "example.com/owner", "a b", "a.b.c", "ключ", "straße", "a.", ".a", "tags[]", "[]", "x[y]", "k[-1]", "n[1"}

func c01Opts(r *rand.Rand) genOpts {
	o := defaultOpts()
	if r.Intn(3) == 0 {
		o.keys = c01OddKeys
	}
	return o
}

func c01GenGeneric(r *rand.Rand) map[string]any {
	o := c01Opts(r)
	m := genDoc(r, o)
	// sprinkle values of other kinds
	if r.Intn(4) == 0 {
		m["t"] = time.Date(2001, 12, 14, 0, 0, 0, 0, time.UTC)
	}
	if r.Intn(6) == 0 {
		m["l"] = []any{nil, time.Date(2002, 1, 1, 0, 0, 0, 0, time.UTC), []any{nil}, map[string]any{}}
	}
	if r.Intn(8) == 0 {
		m["mi"] = map[any]any{1: "x"}
	}
	if r.Intn(8) == 0 {
		m["ts"] = []string{"typed", "slice"}
	}
	return m
}

func renderText(r *rand.Rand, m map[string]any, asJSON bool) string {
	var b bytes.Buffer
	if asJSON {
		_ = json.NewEncoder(&b).Encode(m)
	} else {
		_ = yaml.NewEncoder(&b).Encode(m)
	}
	s := b.String()
	switch r.Intn(10) {
	case 0: // truncate
		if len(s) > 2 {
			s = s[:r.Intn(len(s))]
		}
	case 1: // corrupt a byte
		if len(s) > 0 {
			bs := []byte(s)
			bs[r.Intn(len(bs))] = byte(r.Intn(256))
			s = string(bs)
		}
	}
	return s
}

func init() {
	register(&Prop{
		ID:   "C01",
		Rule: "kinds: round (AsMap(FromMap m) for generated generic values incl. nil/empties/time.Time/map[any]any/typed slices at any position), dom (the DOM FromMap built, read node by node), asmap (builder-made documents), text (hand-listed YAML-only features + rendered/truncated/corrupted YAML and JSON through FromReader vs control decode). Extra: Serialize byte-determinism x8/x20 and EVERY prefix length of writer and reader failure (yaml+json). Non-trivial: value has a null or empty collection inside a list; text decodes to a non-empty map. Distinct by Gallina term / text. After every round trip a consumer writes into the exported value (also into its empty mappings and lists) and the document is exported again. Member names that merely look like index suffixes (tags[], [], x[y], k[-1]).",
		Corpus: func() []Case {
			cs := []Case{
				c01Round(map[string]any{"a": []any{1, nil, 3}}, "round"), // pinned-tree defect
				c01Round(map[string]any{"t": time.Date(2001, 12, 14, 0, 0, 0, 0, time.UTC)}, "round"),
				c01Round(map[string]any{"m": map[any]any{1: "x"}}, "round"),
				c01Round(map[string]any{"a": []any{[]any{nil}, map[string]any{}, []any{}}}, "round"),
				// the recorded finding, exercised on every run: a member name with an index suffix
				c01Round(map[string]any{"a[0]": 1}, "round"),
				c01Round(map[string]any{"b": map[string]any{"x[2]": "v"}}, "round"),
			}
			for _, t := range c01Texts {
				cs = append(cs, c01Text(t, strings.HasPrefix(t, "{\"")))
			}
			return cs
		},
		Gen: func(r *rand.Rand, tier string, idx int) Case {
			switch idx % 5 {
			case 0, 1:
				return c01Round(c01GenGeneric(r), "round")
			case 2:
				return c01Dom(c01GenGeneric(r))
			case 3:
				return c01AsMap(genDoc(r, c01Opts(r)))
			default:
				js := r.Intn(2) == 0
				o := c01Opts(r)
				if js {
					o.floats = false
				}
				if !js && r.Intn(6) == 0 {
					// a document longer than one read of the decoder, with a multi-byte character wherever a read may end
					// (yaml.v3 reads in pieces of at most 512 bytes), or written in UTF-16 with a byte order mark
					pad := 480 + r.Intn(80)
					t := "k: " + strings.Repeat("a", pad) + []string{"é", "世", "😀"}[r.Intn(3)] + strings.Repeat("b", r.Intn(40)) + "\nz: 1\n"
					if r.Intn(4) == 0 {
						u := utf16.Encode([]rune("a: é\nb: [1, 2]\n"))
						bs := []byte{0xff, 0xfe}
						for _, c := range u {
							bs = append(bs, byte(c), byte(c>>8))
						}
						t = string(bs)
					}
					return c01Text(t, false)
				}
				return c01Text(renderText(r, genDoc(r, o), js), js)
			}
		},
		Extra: c01Extra,
	})
}

func allKeysSafe(v any) bool {
	switch x := v.(type) {
	case map[string]any:
		for k, c := range x {
			if k == "" || strings.ContainsAny(k, ".[] /") || !allKeysSafe(c) {
				return false
			}
		}
	case []any:
		for _, c := range x {
			if !allKeysSafe(c) {
				return false
			}
		}
	}
	return true
}

var indexKeyRe = regexp.MustCompile(`\[\d+\]$`)

func hasIndexKey(v any) bool {
	switch x := v.(type) {
	case map[string]any:
		for k, c := range x {
			if indexKeyRe.MatchString(k) || hasIndexKey(c) {
				return true
			}
		}
	case []any:
		for _, c := range x {
			if hasIndexKey(c) {
				return true
			}
		}
	}
	return false
}
