package main

import (
	"fmt"
	"math/rand"
	"reflect"
	"sort"
	"strings"

	"github.com/rkosegi/yaml-toolkit/diff"
	"github.com/rkosegi/yaml-toolkit/dom"
)

func gMod(m diff.Modification) string {
	t := map[diff.ModificationType]string{diff.ModChange: "MChange", diff.ModDelete: "MDelete", diff.ModAdd: "MAdd"}[m.Type]
	if t == "" {
		t = "MAdd (* unknown type " + string(m.Type) + " *)"
	}
	return "(mkMod " + t + " " + gStr(m.Path) + " " + gScalar(normScalar(m.Value)) + " " + gScalar(normScalar(m.OldValue)) + ")"
}

func modsDesc(ms []diff.Modification) []string {
	out := make([]string, len(ms))
	for i, m := range ms {
		out[i] = fmt.Sprintf("%s %s value=%v old=%v", m.Type, m.Path, m.Value, m.OldValue)
	}
	return out
}

func c07Diff(l, r map[string]any, reps int) Case {
	var first []diff.Modification
	var fail []string
	pn := guard(func() {
		for i := 0; i < reps; i++ {
			// fresh DOMs every time: map iteration order is re-randomised per range anyway
			L, R := anyToContainer(l), anyToContainer(r)
			ms := *diff.Diff(L, R)
			if i == 0 {
				first = ms
			} else if !reflect.DeepEqual(ms, first) && !(len(ms) == 0 && len(first) == 0) {
				fail = append(fail, "repeated Diff calls returned different sequences")
				break
			}
		}
	})
	if pn != "" {
		return Case{Kind: "diff", Desc: map[string]any{"l": l, "r": r, "panic": pn}, Fail: []string{"panic in Diff: " + pn}, Nontrivial: true}
	}
	for i := 1; i < len(first); i++ {
		if first[i-1].Path > first[i].Path {
			fail = append(fail, "modifications are not ordered by path")
			break
		}
		if first[i-1].Path == first[i].Path && !(first[i-1].Type == diff.ModDelete && first[i].Type == diff.ModAdd) {
			fail = append(fail, "tie on a path is not Delete-then-Add")
		}
	}
	L, R := anyToContainer(l), anyToContainer(r)
	// operands built along other routes (decoder: shared nil leaf; clone: fresh nil leaves; sealed view)
	// are the same documents: same answer
	if pn := guard(func() {
		for route := 1; route <= 3; route++ {
			l2, ok1 := nodeVia(l, route).(dom.Container)
			r2, ok2 := nodeVia(r, (route+1)%4).(dom.Container)
			if !ok1 || !ok2 {
				continue
			}
			ms := *diff.Diff(l2, r2)
			if !reflect.DeepEqual(ms, first) && !(len(ms) == 0 && len(first) == 0) {
				fail = append(fail, fmt.Sprintf("Diff of the same two documents built along routes %d/%d returned a different sequence", route, (route+1)%4))
				break
			}
		}
		// documents composed of read-only parts (every nested mapping and list a Seal()ed view)
		for _, pair := range [][2]dom.Container{{anyToContainerSealedKids(l), anyToContainer(r)}, {anyToContainer(l), anyToContainerSealedKids(r)}} {
			ms := *diff.Diff(pair[0], pair[1])
			if !reflect.DeepEqual(ms, first) && !(len(ms) == 0 && len(first) == 0) {
				fail = append(fail, "Diff of the same two documents, one of them composed of sealed parts, returned a different sequence")
				break
			}
		}
	}); pn != "" {
		fail = append(fail, "panic in Diff of decoded/cloned/sealed operands: "+pn)
	}
	// the SAME two objects diffed several times: same answer every time, and neither is touched
	if pn := guard(func() {
		dl, dr := dom.VerifDump(L), dom.VerifDump(R)
		for i := 0; i < 3; i++ {
			ms := *diff.Diff(L, R)
			if !reflect.DeepEqual(ms, first) && !(len(ms) == 0 && len(first) == 0) {
				fail = append(fail, fmt.Sprintf("Diff call %d on the same two objects returned a different sequence", i+1))
				break
			}
		}
		_ = *diff.Diff(L, L)
		if dom.VerifDump(L) != dl || dom.VerifDump(R) != dr {
			fail = append(fail, "Diff modified one of its arguments")
		}
	}); pn != "" {
		fail = append(fail, "panic in a repeated Diff: "+pn)
	}
	if len(first) == 0 {
		fl, _ := flatPlain(L)
		fr, _ := flatPlain(R)
		if !reflect.DeepEqual(fl, fr) {
			fail = append(fail, "Diff(L,R) == [] but Flatten(L) != Flatten(R)")
		}
	}
	if reflect.DeepEqual(l, r) && len(first) != 0 {
		fail = append(fail, "Diff(L,L) != []")
	}
	kinds := map[diff.ModificationType]bool{}
	for _, m := range first {
		kinds[m.Type] = true
	}
	return Case{Kind: "diff", Desc: map[string]any{"l": l, "r": r, "mods": modsDesc(first)},
		Coq: "CDiff " + gNode(l) + " " + gNode(r) + " " + gList(first, gMod), Fail: fail, Nontrivial: len(kinds) >= 2}
}

// one text decoded twice gives two equal documents, whatever its scalars are (timestamps with odd
// zone offsets, mappings with non-string keys kept as opaque leaves): their Diff is empty, in both
// directions and with itself, and never panics
func c07DecodedTwice(text string) Case {
	var fail []string
	pn := guard(func() {
		L, e1 := dom.Builder().FromReader(strings.NewReader(text), dom.DefaultYamlDecoder)
		R, e2 := dom.Builder().FromReader(strings.NewReader(text), dom.DefaultYamlDecoder)
		if e1 != nil || e2 != nil {
			return
		}
		for i, pair := range [][2]dom.Container{{L, R}, {R, L}, {L, L}, {L, L.Clone().(dom.Container)}} {
			if ms := *diff.Diff(pair[0], pair[1]); len(ms) != 0 {
				fail = append(fail, fmt.Sprintf("Diff of a text decoded twice is not empty (pair %d): %v", i, modsDesc(ms)))
			}
		}
		if !L.Equals(R) {
			fail = append(fail, "a text decoded twice gives unequal documents")
		}
	})
	if pn != "" {
		fail = append(fail, "panic in Diff of a text decoded twice: "+pn)
	}
	return Case{Kind: "decoded-twice", Desc: map[string]any{"text": text}, Fail: fail, Nontrivial: true, Key: "dt:" + text}
}

// the same mapping / list OBJECT stored at two positions of the left document (nothing clones on
// insert): each position is flattened into its own Adds
func c07SharedObject() Case {
	tmpl := dom.Builder().Container()
	tmpl.AddValue("image", dom.LeafNode("nginx"))
	tmpl.AddValue("ports", dom.ListNode(dom.LeafNode(80), dom.LeafNode(443)))
	L := dom.Builder().Container()
	L.AddValue("apps", dom.ListNode(tmpl, tmpl))
	grp := dom.Builder().Container()
	grp.AddValue("first", tmpl)
	grp.AddValue("second", tmpl)
	L.AddValue("grp", grp)
	R := dom.Builder().Container()
	R.AddValue("apps", dom.ListNode(dom.LeafNode(1)))
	var fail []string
	pn := guard(func() {
		want := *diff.Diff(L.Clone().(dom.Container), R) // a deep copy has no shared objects
		for i := 0; i < 6; i++ {
			if got := *diff.Diff(L, R); !reflect.DeepEqual(got, want) {
				fail = append(fail, fmt.Sprintf("Diff of a document holding one object at several positions: %d modifications, its deep copy gives %d", len(got), len(want)))
				break
			}
		}
	})
	if pn != "" {
		fail = append(fail, "panic: "+pn)
	}
	return Case{Kind: "shared-object", Desc: "one mapping object at four positions of the left document", Fail: fail, Nontrivial: true, Key: "shared-object"}
}

func c07Overlay(r *rand.Rand, o genOpts) Case {
	names := []string{"base", "site", "host"}
	mk := func() (dom.OverlayDocument, map[string]any) {
		ov := dom.NewOverlayDocument()
		plain := map[string]any{}
		for _, n := range names {
			if r.Intn(3) == 0 {
				continue
			}
			d := genDoc(r, o)
			if len(d) == 0 {
				continue
			}
			ov.Add(n, anyToContainer(d))
			plain[n] = d
		}
		return ov, plain
	}
	lo, lp := mk()
	ro, rp := mk()
	// make the right side related to the left one
	for _, n := range sortedKeys(lp) {
		d := lp[n]
		switch r.Intn(3) {
		case 0:
			nd := deriveDoc(r, d.(map[string]any), o)
			if len(nd) > 0 {
				rp[n] = nd
			}
		case 1: // a layer both sides have, with equal content: its entry is the empty sequence, not a missing one
			rp[n] = deepCopy(d)
		}
	}
	ro = dom.NewOverlayDocument()
	for _, n := range sortedKeys(rp) {
		ro.Add(n, anyToContainer(rp[n].(map[string]any)))
	}
	var res map[string]*[]diff.Modification
	var fail []string
	if pn := guard(func() { res = diff.OverlayDocs(lo, ro) }); pn != "" {
		return Case{Kind: "overlay", Desc: map[string]any{"panic": pn}, Fail: []string{"panic in OverlayDocs: " + pn}, Nontrivial: true}
	}
	all := map[string]bool{}
	for n := range lp {
		all[n] = true
	}
	for n := range rp {
		all[n] = true
	}
	if len(res) != len(all) {
		fail = append(fail, "OverlayDocs does not have exactly the layer names of either side")
	}
	for n := range all {
		if res[n] == nil {
			fail = append(fail, "OverlayDocs has no entry for layer "+n)
		}
	}
	ns := sortedKeys(all)
	if len(ns) == 0 {
		return Case{Kind: "overlay", Desc: map[string]any{"l": lp, "r": rp}, Fail: fail}
	}
	name := ns[r.Intn(len(ns))]
	var ms []diff.Modification
	if res[name] != nil {
		ms = *res[name]
	} else {
		fail = append(fail, "OverlayDocs has no entry for layer "+name)
	}
	layers := func(p map[string]any) string {
		return gList(sortedKeys(p), func(k string) string { return "(" + gStr(k) + ", " + gNode(p[k]) + ")" })
	}
	coqCase := "COverlay " + gStr(name) + " " + layers(lp) + " " + layers(rp) + " " + gList(ms, gMod)
	descCase := map[string]any{"l": deepCopy(lp), "r": deepCopy(rp), "layer": name, "mods": modsDesc(ms)}
	// the documents live on: after an edit of either side (a fresh top-level key written by Populate, Put or a new Add
	// into a layer that exists or not) a second OverlayDocs describes the layers as they are NOW
	if len(fail) == 0 && r.Intn(2) == 0 {
		ed := ns[r.Intn(len(ns))]
		side, plain := lo, lp
		if r.Intn(2) == 0 {
			side, plain = ro, rp
		}
		cur, _ := plain[ed].(map[string]any)
		cur = deepCopy(cur).(map[string]any)
		if cur == nil {
			cur = map[string]any{}
		}
		how := r.Intn(3)
		if pn := guard(func() {
			switch how {
			case 0:
				side.Populate(ed, "", &map[string]interface{}{"populated-later": "p"})
				cur["populated-later"] = "p"
			case 1:
				side.Put(ed, "put-later", dom.LeafNode("q"))
				cur["put-later"] = "q"
			default: // Add writes the members of its argument into the layer
				side.Add(ed, anyToContainer(map[string]any{"added-later": "r"}))
				cur["added-later"] = "r"
			}
			plain[ed] = cur
			res2 := diff.OverlayDocs(lo, ro)
			for _, n := range ns {
				le, _ := lp[n].(map[string]any)
				re, _ := rp[n].(map[string]any)
				want := *diff.Diff(anyToContainer(le), anyToContainer(re))
				if res2[n] == nil || !reflect.DeepEqual(modsDesc(*res2[n]), modsDesc(want)) {
					fail = append(fail, fmt.Sprintf("after an edit of layer %s (how=%d) a second OverlayDocs does not describe layer %s as it is now", ed, how, n))
				}
			}
		}); pn != "" {
			fail = append(fail, "panic in the second OverlayDocs: "+pn)
		}
	}
	return Case{Kind: "overlay", Desc: descCase, Coq: coqCase, Fail: fail, Nontrivial: len(ms) >= 2}
}

// many keys whose left node is composite and right node a scalar: ties Delete/Add on one path
func c07Ties(r *rand.Rand, n int) Case {
	l, rr := map[string]any{}, map[string]any{}
	for i := 0; i < n; i++ {
		k := fmt.Sprintf("k%02d", i)
		switch r.Intn(3) {
		case 0:
			l[k] = map[string]any{"x": i}
		case 1:
			l[k] = []any{i, "y"}
		default:
			l[k] = i
		}
		rr[k] = "s" + strings.Repeat("x", r.Intn(2))
	}
	return c07Diff(l, rr, 10)
}

func init() {
	register(&Prop{
		ID:   "C07",
		Rule: "pairs (L,R) with path-safe keys (a third over sibling keys where one is a prefix of another continued by '-', a digit, '_' or a letter; a sixth with a list of 11-14 items): R derived from L by 1-4 mutations at any depth (add/remove keys, scalar changes, list changes, kind flips) or independent; each pair diffed 10x (fresh DOMs; Go re-randomises map iteration) and the sequences must be identical; plus tie-heavy pairs (12-40 keys with composite-left / scalar-right, so Delete and Add share a path and an unstable sort would show) and diff.OverlayDocs over 0-3 layers per side; a tenth of the pairs go through files and the pipeline template function domdiff, whose rendered sequence must equal diff.Diff's. Observable: the exact sequence of (Type, Path, Value, OldValue). Non-trivial: diff has >= 2 modification kinds. Distinct by Gallina term. One operand composed of sealed parts; corpus: one YAML text decoded twice (timestamps with odd zone offsets, non-string-keyed mappings) diffs to nothing. OverlayDocs: layers with equal content on both sides, an entry required for every layer name; corpus: one mapping object at four positions of the left operand.",
		Corpus: func() []Case {
			return []Case{
				c07Diff(map[string]any{"a": 1}, map[string]any{"a": 1}, 3),
				c07Diff(map[string]any{"a": map[string]any{"x": 1}}, map[string]any{"a": "s"}, 3),
				c07Diff(map[string]any{"a": []any{[]any{1, 2}, []any{3}}}, map[string]any{"a": []any{1}}, 3),
				c07Diff(map[string]any{"a": map[string]any{}}, map[string]any{}, 3),
				c07Diff(map[string]any{"a": []any{1}, "b": 1}, map[string]any{"a": []any{2}, "b": nil}, 3),
				c07DecodedTwice("t: 2001-12-14T21:59:43.10+05:30\nl: [2002-01-01T00:00:00-03:30, x]\nu: 2001-12-14T21:59:43Z\nd: 2002-12-14\n"),
				c07DecodedTwice("codes: {200: OK, 404: NF}\nflags: {true: on}\nrecs:\n- {1: a}\n- plain\n"),
				c07DecodedTwice("a: {b: [1, {c: ~}], e: {}}\nf: 1.5\ng: 0x10\nh: '1'\n"),
				c07SharedObject(),
			}
		},
		Gen: func(r *rand.Rand, tier string, idx int) Case {
			o := defaultOpts()
			o.keys = []string{"a", "b", "c", "k1", "x-y", "0"}
			if r.Intn(3) == 0 {
				// sibling keys one of which is a proper prefix of the other, continued by a character
				// below "." and "[" ('-' and digits sort before them as bytes: "a-b" < "a.x" < "a[0]" < "a_"):
				// ordering by whole path differs from a depth-first walk in key order
				o.keys = []string{"a", "a-b", "a0", "a_", "aB", "a-", "b", "b-1", "cpu%", "%d"}
			}
			switch idx % 10 {
			case 8:
				return c07Ties(r, 12+r.Intn(29))
			case 9:
				return c07Overlay(r, o)
			}
			l := genDoc(r, o)
			if r.Intn(6) == 0 { // a left-only list of more than ten items: "k[10]" sorts before "k[2]"
				n := 11 + r.Intn(4)
				lst := make([]any, n)
				for i := range lst {
					lst[i] = i
				}
				l[o.keys[r.Intn(len(o.keys))]] = lst
			}
			rr := deriveDoc(r, l, o)
			if r.Intn(5) == 0 {
				rr = genDoc(r, o)
			}
			if r.Intn(12) == 0 {
				rr = deepCopy(l).(map[string]any)
			}
			if r.Intn(5) == 0 {
				// a list of records on both sides that differ in the NAME of one member only (same values, in name order)
				k := o.keys[r.Intn(len(o.keys))]
				rec := func(name string) any {
					return []any{map[string]any{name: "MODE", "value": "fast"}, map[string]any{"only": []any{map[string]any{name: 1}}}}
				}
				l[k], rr[k] = rec("name"), rec("key")
			}
			if idx%10 == 7 { // the same through the template function domdiff
				return c07DomDiff(r, idx, l, rr)
			}
			return c07Diff(l, rr, 10)
		},
	})
}

var _ = sort.Strings
