package main

import (
	"fmt"
	"math/rand"
	"os"
	"path/filepath"
	"reflect"
	"sort"
	"strings"

	"github.com/rkosegi/yaml-toolkit/pipeline"
	"gopkg.in/yaml.v3"
)

func leafAct(name string, ops ...pOp) *pAct { return &pAct{Name: name, Ops: ops} }

func logVar(prefix, v string) pOp {
	return pOp{Kind: "log", Tmpl: []tpart{{Lit: prefix}, {Var: v}}}
}

// forEach over literal items / a list query / a leaf query; body = {log item, trace, set, abort at item k}
// directories made for glob item sources (removed with the process's temp root)
var c14GlobDirs []string

func c14ForEach(r *rand.Rand) Case {
	data := map[string]any{"flag": "yes", "items": []any{"x", "y", "z"}[:1+r.Intn(3)], "single": "only", "keep": map[string]any{"a": 1}}
	v := []string{"it", "forEach", "elem"}[r.Intn(3)]
	op := pOp{Kind: "foreach", Var: v}
	if v == "forEach" {
		op.Var = ""
	}
	var items []string
	switch r.Intn(5) {
	case 4: // the files a pattern matches, in the order of the directory listing, each bound as its path
		dir := filepath.Join(procTmp("c14glob"), fmt.Sprint(r.Int63()))
		_ = os.MkdirAll(dir, 0o755)
		c14GlobDirs = append(c14GlobDirs, dir)
		for i, n := 0, r.Intn(4); i < n; i++ {
			nm := fmt.Sprintf("%d-%s.%s", r.Intn(4), []string{"a", "b"}[r.Intn(2)], []string{"txt", "txt", "yaml"}[r.Intn(3)])
			_ = os.WriteFile(filepath.Join(dir, nm), []byte("x"), 0o644)
		}
		_ = os.MkdirAll(filepath.Join(dir, "sub"), 0o755)
		op.Glob = filepath.Join(dir, []string{"*.txt", "*", "[0-1]*", "none-*"}[r.Intn(4)])
		if r.Intn(4) == 0 { // a pattern is matched as it is spelled
			op.Glob = dir + "/sub/../" + []string{"*.txt", "*.yaml"}[r.Intn(2)]
		}
		items, _ = filepath.Glob(op.Glob)
		sort.Strings(items)
		op.Items = items
		if len(items) == 0 {
			op.Items = []string{}
		}
	case 0:
		op.Query = "items"
		for _, x := range data["items"].([]any) {
			items = append(items, x.(string))
		}
	case 1:
		op.Query = "single"
		items = []string{"only"}
	case 2:
		op.Query = "missing.path"
	default:
		n := r.Intn(4)
		for i := 0; i < n; i++ {
			if r.Intn(4) == 0 {
				items = append(items, "") // an empty item is an item like any other
			} else {
				items = append(items, fmt.Sprintf("i%d", i))
			}
		}
		op.Items = items
		if n == 0 {
			op.Items = []string{}
		}
	}
	body := &pAct{Name: "body"}
	body.Ops = append(body.Ops, logVar("item=", v))
	if r.Intn(2) == 0 {
		body.Ops = append(body.Ops, pOp{Kind: "trace", ID: "b"})
	}
	if r.Intn(2) == 0 {
		body.Ops = append(body.Ops, pOp{Kind: "set", Data: map[string]any{"last": "w"}})
	}
	failAt, hasFail := "", false
	if len(items) > 0 && r.Intn(3) == 0 {
		hasFail = true
		// fail at one particular item: a child step guarded by a condition on the loop variable
		failAt = items[r.Intn(len(items))]
		body.Children = append(body.Children, &pAct{Name: "guard", Order: 1, When: pCond{Kind: "eq", K: v, S: failAt},
			Ops: []pOp{{Kind: "abort", Tmpl: []tpart{{Lit: "at " + failAt}}}}})
	} else if r.Intn(4) == 0 {
		body.Ops = append(body.Ops, pOp{Kind: "abort", Tmpl: []tpart{{Lit: "always"}}})
	}
	if r.Intn(3) == 0 {
		body.Children = append(body.Children, leafAct("child", pOp{Kind: "trace", ID: "c"}))
	}
	if r.Intn(3) == 0 {
		body.When = pCond{Kind: "const", B: false} // ignored by forEach
	}
	overwrites := false
	if op.Query == "items" && len(items) >= 2 && r.Intn(2) == 0 {
		overwrites = true
		// the body overwrites the LAST item of the list it iterates: the items are those the list had when the forEach started
		body.Children = append(body.Children, &pAct{Name: "overwrite", Order: 5,
			Ops: []pOp{{Kind: "template", Path: fmt.Sprintf("items[%d]", len(items)-1), Tmpl: []tpart{{Lit: "done"}}}}})
	}
	op.Body = body
	root := &pAct{Name: "r", Ops: []pOp{op, {Kind: "log", Tmpl: []tpart{{Lit: "after"}}}}}
	c := execCase("foreach", root, data, hasFail)
	// Go-side: variable gone, other data undisturbed (except what the body set)
	if d, ok := c.Desc.(map[string]any); ok {
		if fin, ok := d["final"].(map[string]any); ok {
			vn := v
			if _, present := fin[vn]; present {
				c.Fail = append(c.Fail, "loop variable "+vn+" still present after forEach finished")
			}
			for _, k := range []string{"flag", "items", "single", "keep"} {
				if k == "items" && overwrites { // (what the body wrote there is the model's to compare)
					continue
				}
				if !reflect.DeepEqual(fin[k], data[k]) {
					c.Fail = append(c.Fail, "forEach disturbed unrelated data at "+k)
				}
			}
		}
		// trace of items x body in order up to the failure
		if evs, ok := d["events"].([]string); ok {
			var seen []string
			for _, e := range evs {
				if strings.HasPrefix(e, "L:item=") {
					seen = append(seen, strings.TrimPrefix(e, "L:item="))
				}
			}
			want := items
			if hasFail {
				for i, it := range items {
					if it == failAt {
						want = items[:i+1]
						break
					}
				}
			}
			alwaysAbort := false
			for _, o := range body.Ops {
				if o.Kind == "abort" {
					alwaysAbort = true
				}
			}
			if alwaysAbort && len(items) > 0 {
				want = items[:1]
			}
			if !reflect.DeepEqual(seen, want) && !(len(seen) == 0 && len(want) == 0) {
				c.Fail = append(c.Fail, fmt.Sprintf("body ran for items %v, expected %v", seen, want))
			}
		}
	}
	return c
}

// forEach over a container query: each key exactly once, order unspecified (Go side only)
func c14ForEachContainer(r *rand.Rand) Case {
	keys := []string{"k1", "k2", "k3", "k4"}[:1+r.Intn(4)]
	m := map[string]any{}
	for _, k := range keys {
		m[k] = 1
	}
	data := map[string]any{"cfg": m}
	root := &pAct{Name: "r", Ops: []pOp{{Kind: "foreach", Query: "cfg", Var: "key", Body: leafAct("body", logVar("k=", "key"))}}}
	evs, failed, final, pn, derr := runTree(root, data)
	var fail []string
	if derr != nil || pn != "" || failed {
		fail = append(fail, fmt.Sprintf("container forEach failed: %v %s %v", derr, pn, failed))
	}
	var seen []string
	for _, e := range evs {
		if e.Kind == "L" {
			seen = append(seen, strings.TrimPrefix(e.Label, "k="))
		}
	}
	sort.Strings(seen)
	if !reflect.DeepEqual(seen, keys) {
		fail = append(fail, fmt.Sprintf("container query visited %v, expected each of %v exactly once", seen, keys))
	}
	if fm, ok := final.(map[string]any); ok {
		if _, present := fm["key"]; present {
			fail = append(fail, "loop variable still present after container forEach")
		}
	}
	return Case{Kind: "foreach-container", Desc: map[string]any{"keys": keys, "visited": seen}, Fail: fail, Nontrivial: len(keys) >= 2, Key: fmt.Sprint(keys)}
}

// define + call with single-key and dotted args paths; arguments readable inside, absent after
func c14Call(r *rand.Rand) Case {
	data := map[string]any{"flag": "yes", "cfg": map[string]any{"keep": "me", "sub": map[string]any{"x": 1}}}
	ap := []string{"", "myargs", "cfg.args", "p.q.r"}[r.Intn(4)]
	// the arguments path may be a template: it is rendered against the data when the call starts, and
	// the arguments are removed again from that very (rendered) path
	apTmpl := ""
	if r.Intn(4) == 0 {
		data["argskey"] = "dyn"
		switch r.Intn(2) {
		case 0:
			ap, apTmpl = "dyn", "{{ .argskey }}"
		default:
			ap, apTmpl = "tmp.dyn", "tmp.{{ .argskey }}"
		}
	}
	callee := &pAct{Name: "callee"}
	readPath := "args"
	if ap != "" {
		readPath = ap
	}
	// copy the argument out through a set op that merges at a path read by a template is not expressible with
	// {{ .k }} for dotted paths; the callee logs a top-level key when possible and always traces
	callee.Ops = append(callee.Ops, pOp{Kind: "trace", ID: "in-" + readPath})
	callee.Ops = append(callee.Ops, pOp{Kind: "log", Tmpl: []tpart{{Lit: "x="}, {Var: readPath + ".x"}}}) // reads the argument inside
	if r.Intn(3) == 0 {
		callee.Ops = append(callee.Ops, pOp{Kind: "abort", Tmpl: []tpart{{Lit: "callee fails"}}})
	}
	root := &pAct{Name: "r"}
	name := "fn"
	step := 0
	add := func(ops ...pOp) {
		root.Children = append(root.Children, &pAct{Name: fmt.Sprintf("s%d", step), Order: step, Ops: ops})
		step++
	}
	if r.Intn(5) != 0 {
		add(pOp{Kind: "define", Name: name, Body: callee})
	}
	if r.Intn(4) == 0 {
		add(pOp{Kind: "define", Name: name, Body: leafAct("second", pOp{Kind: "trace", ID: "second"})}) // same name twice
	}
	firstArgs := litArgs(map[string]string{"x": "1", "y": "v"})
	if r.Intn(2) == 0 { // rendered against the data as it is when the call starts
		firstArgs = map[string]any{"x": []tpart{{Var: "flag"}, {Lit: "-1"}}, "n": map[string][]tpart{"f": {{Lit: "<"}, {Var: "flag"}, {Lit: ">"}}}}
	}
	if r.Intn(4) == 0 { // a call that passes nothing still places its own (empty) arguments and removes them afterwards
		firstArgs = map[string]any{}
		if !strings.Contains(readPath, ".") && r.Intn(2) == 0 {
			data[readPath] = map[string]any{"x": "stale", "z": 1}
		}
	}
	add(pOp{Kind: "call", Name: name, ArgsPath: ap, ArgsPathTmpl: apTmpl, Args: firstArgs})
	add(pOp{Kind: "log", Tmpl: []tpart{{Lit: "after call"}}})
	if r.Intn(3) == 0 {
		add(pOp{Kind: "call", Name: name, ArgsPath: ap, ArgsPathTmpl: apTmpl, Args: litArgs(map[string]string{"x": "2"})})
	}
	c := execCase("call", root, data, strings.Contains(ap, "."))
	if d, ok := c.Desc.(map[string]any); ok {
		if fin, ok := d["final"].(map[string]any); ok {
			_, staleThere := data[readPath]
			failedRun, _ := d["failed"].(bool)
			// (with user data placed at the arguments path beforehand, a run that fails before the call leaves it there)
			if _, found := plookup(fin, parsePPath(readPath)); found && !(staleThere && failedRun) {
				c.Fail = append(c.Fail, "call arguments still present at "+readPath+" after the call")
			}
			cfg, _ := fin["cfg"].(map[string]any)
			if cfg == nil || cfg["keep"] != "me" || !reflect.DeepEqual(cfg["sub"], map[string]any{"x": 1}) {
				c.Fail = append(c.Fail, "call disturbed data next to its arguments path")
			}
		}
	}
	return c
}

// a call inside a forEach body: the arguments (top-level and nested) are rendered anew on every call
func c14CallInLoop(r *rand.Rand) Case {
	data := map[string]any{"flag": "yes"}
	n := 2 + r.Intn(3)
	var items []string
	for i := 0; i < n; i++ {
		items = append(items, fmt.Sprintf("i%d", i))
	}
	ap := []string{"", "myargs", "p.q"}[r.Intn(3)]
	readPath := "args"
	if ap != "" {
		readPath = ap
	}
	callee := leafAct("callee", pOp{Kind: "log", Tmpl: []tpart{{Lit: "got="}, {Var: readPath + ".top"}, {Lit: "/"}, {Var: readPath + ".sub.v"}, {Lit: "/"}, {Var: readPath + ".sub.w"}}})
	// ... also when the call sits two loops deep: the arguments read BOTH loop variables when the call runs
	nested := r.Intn(3) == 0
	top := []tpart{{Var: "it"}}
	if nested {
		top = []tpart{{Var: "o"}, {Var: "it"}}
	}
	call := pOp{Kind: "call", Name: "fn", ArgsPath: ap, Args: map[string]any{
		"top": top,
		"sub": map[string][]tpart{"v": {{Lit: "<"}, {Var: "it"}, {Lit: ">"}}, "w": {{Lit: "const"}}},
	}}
	body := &pAct{Name: "body", Ops: []pOp{call}}
	if r.Intn(2) == 0 { // the data changes between two calls of one body run as well
		body = &pAct{Name: "body", Children: []*pAct{
			{Name: "c1", Order: 5, Ops: []pOp{call}}, // (order values of different widths: compared as numbers)
			{Name: "c2", Order: 10, Ops: []pOp{{Kind: "set", Data: map[string]any{"it": "changed"}}}},
			{Name: "c3", Order: 100, Ops: []pOp{call}},
		}}
	}
	loop := pOp{Kind: "foreach", Var: "it", Items: items, Body: body}
	outer := []string{""}
	if nested {
		outer = []string{"a", "b"}
		loop = pOp{Kind: "foreach", Var: "o", Items: outer, Body: &pAct{Name: "ob", Ops: []pOp{loop}}}
	}
	root := &pAct{Name: "r", Children: []*pAct{
		{Name: "s0", Order: 0, Ops: []pOp{{Kind: "define", Name: "fn", Body: callee}}},
		{Name: "s1", Order: 1, Ops: []pOp{loop}},
	}}
	c := execCase("call-in-loop", root, data, true)
	if d, ok := c.Desc.(map[string]any); ok {
		if evs, ok := d["events"].([]string); ok {
			var seen, want []string
			for _, e := range evs {
				if strings.HasPrefix(e, "L:got=") {
					seen = append(seen, strings.TrimPrefix(e, "L:got="))
				}
			}
			for _, ov := range outer {
				for _, it := range items {
					want = append(want, ov+it+"/<"+it+">/const")
					if len(body.Children) > 0 {
						want = append(want, ov+"changed/<changed>/const")
					}
				}
			}
			if !reflect.DeepEqual(seen, want) {
				c.Fail = append(c.Fail, fmt.Sprintf("callee saw arguments %v, expected %v", seen, want))
			}
		}
	}
	return c
}

// the first definition is kept: a rejected second define must not replace it — observed by calling
// the name in a LATER run on the same executor (the failing run itself stops at the define error)
func c14DefineTwiceThenCall(r *rand.Rand) Case {
	data := map[string]any{"flag": "yes"}
	first := leafAct("first", pOp{Kind: "trace", ID: "first-body"}, pOp{Kind: "log", Tmpl: []tpart{{Lit: "first runs"}}})
	second := leafAct("second", pOp{Kind: "trace", ID: "second-body"})
	run1 := &pAct{Name: "r1", Children: []*pAct{
		{Name: "s0", Order: 0, Ops: []pOp{{Kind: "define", Name: "fn", Body: first}}},
		{Name: "s1", Order: 1, Ops: []pOp{{Kind: "define", Name: "fn", Body: second}}},
		{Name: "s2", Order: 2, Ops: []pOp{{Kind: "log", Tmpl: []tpart{{Lit: "not reached"}}}}},
	}}
	if r.Intn(3) == 0 { // no duplicate: plain define, then a later call
		run1.Children = run1.Children[:1]
	}
	run2 := &pAct{Name: "r2", Ops: []pOp{{Kind: "call", Name: "fn", Args: litArgs(map[string]string{"x": "1"})}}}
	if r.Intn(4) == 0 {
		run2 = &pAct{Name: "r2", Ops: []pOp{{Kind: "call", Name: "other", Args: litArgs(map[string]string{"x": "1"})}}}
	}
	c := execCase2("define-then-call-later", run1, run2, data, true)
	if d, ok := c.Desc.(map[string]any); ok {
		if evs, ok := d["events"].([]string); ok {
			for _, e := range evs {
				if e == "T:second-body" {
					c.Fail = append(c.Fail, "the rejected second definition was run by a later call")
				}
			}
		}
	}
	return c
}

// forEach inside a forEach body, each with its own variable name (the inner one is cloned per outer item)
func c14Nested(r *rand.Rand) Case {
	data := map[string]any{"flag": "yes"}
	ov := []string{"o", "forEach", "outer"}[r.Intn(3)]
	iv := []string{"i", "forEach", "inner"}[r.Intn(3)]
	mk := func(v string, items []string, body *pAct) pOp {
		op := pOp{Kind: "foreach", Var: v, Items: items, Body: body}
		if v == "forEach" {
			op.Var = ""
		}
		return op
	}
	// observed through a template operation: its payload is rendered when it runs (a log message
	// would have been rendered already when the OUTER body was cloned, before the inner variable exists)
	data["trace"] = ""
	innerBody := leafAct("ib", pOp{Kind: "template", Path: "trace", Tmpl: []tpart{{Var: "trace"}, {Lit: "["}, {Var: ov}, {Lit: "/"}, {Var: iv}, {Lit: "]"}}})
	outerBody := &pAct{Name: "ob", Children: []*pAct{
		{Name: "c1", Order: 1, Ops: []pOp{mk(iv, []string{"x", "y"}[:1+r.Intn(2)], innerBody)}},
		{Name: "c2", Order: 2, Ops: []pOp{{Kind: "log", Tmpl: []tpart{{Lit: "after-inner="}, {Var: ov}}}}},
	}}
	if r.Intn(2) == 0 { // the inner forEach directly among the outer body's operations
		outerBody = &pAct{Name: "ob", Ops: []pOp{mk(iv, []string{"x", "y"}, innerBody), {Kind: "log", Tmpl: []tpart{{Lit: "after-inner="}, {Var: ov}}}}}
	}
	if r.Intn(3) == 0 {
		// a guarded step of the inner body reads what an earlier step of that body has just written: the guard
		// is evaluated when the step is about to run, not when the inner forEach is cloned for the outer item
		guardedBody := &pAct{Name: "ib", Children: []*pAct{
			{Name: "k1", Order: 1, Ops: []pOp{{Kind: "set", Data: map[string]any{"cnt": 5}}}},
			{Name: "k2", Order: 2, When: pCond{Kind: "lt", K: "cnt", N: 3}, Ops: []pOp{{Kind: "trace", ID: "guarded-step-ran"}}},
			{Name: "k3", Order: 3, When: pCond{Kind: "lt", K: "cnt", N: 9}, Ops: []pOp{{Kind: "trace", ID: "open-step-ran"}}},
		}}
		outerBody = &pAct{Name: "ob", Ops: []pOp{mk(iv, []string{"x", "y"}, guardedBody)}}
	}
	root := &pAct{Name: "r", Ops: []pOp{mk(ov, []string{"a", "b", "c"}[:1+r.Intn(3)], outerBody)}}
	return execCase("foreach-nested", root, data, true)
}

// the operations of a forEach body run one after the other, each seeing what the earlier ones of the
// same item have written: a template operation stores the item, the log operation after it reads it
func c14BodyOrder(r *rand.Rand) Case {
	data := map[string]any{"flag": "yes"}
	n := 2 + r.Intn(3)
	var items []string
	for i := 0; i < n; i++ {
		items = append(items, fmt.Sprintf("svc-%d", i))
	}
	body := &pAct{Name: "body", Ops: []pOp{
		{Kind: "template", Path: "cur", Tmpl: []tpart{{Lit: "<"}, {Var: "it"}, {Lit: ">"}}},
		{Kind: "log", Tmpl: []tpart{{Lit: "cur="}, {Var: "cur"}}},
	}}
	root := &pAct{Name: "r", Ops: []pOp{{Kind: "foreach", Var: "it", Items: items, Body: body}}}
	c := execCase("foreach-body-order", root, data, true)
	if d, ok := c.Desc.(map[string]any); ok {
		if evs, ok := d["events"].([]string); ok {
			var seen, want []string
			for _, e := range evs {
				if strings.HasPrefix(e, "L:cur=") {
					seen = append(seen, strings.TrimPrefix(e, "L:cur="))
				}
			}
			for _, it := range items {
				want = append(want, "<"+it+">")
			}
			if !reflect.DeepEqual(seen, want) {
				c.Fail = append(c.Fail, fmt.Sprintf("the log operation after the template operation saw %v, expected %v", seen, want))
			}
		}
	}
	return c
}

// forEach over a glob pattern binds the variable to the matched file names exactly as filepath.Glob spells them: a pattern
// that is not in clean form is matched as it stands, a file whose NAME looks like a template is bound by its name (observed
// through a template operation, whose text is rendered once, when it runs) (Go side only)
func c14GlobNames(r *rand.Rand) Case {
	dir := filepath.Join(procTmp("c14glob"), fmt.Sprint("names", r.Int63()))
	_ = os.MkdirAll(filepath.Join(dir, "sub"), 0o755)
	for _, nm := range []string{"a.txt", "b.txt", "{{ .flag }}.txt", "c.yaml"} {
		if nm == "a.txt" || r.Intn(3) != 0 {
			_ = os.WriteFile(filepath.Join(dir, nm), []byte("x"), 0o644)
		}
	}
	pat := []string{dir + "/*.txt", dir + "/sub/../*.txt", dir + "//*.txt", dir + "/./*", dir + "/none/../*.yaml"}[r.Intn(5)]
	want, _ := filepath.Glob(pat)
	tree := map[string]any{"forEach": map[string]any{"glob": pat, "var": "it",
		"action": map[string]any{"template": map[string]any{"template": "{{ .acc }}[{{ .it }}]", "path": "acc"}}}}
	bs, _ := yaml.Marshal(tree)
	var spec pipeline.ActionSpec
	var fail []string
	if err := yaml.Unmarshal(bs, &spec); err != nil {
		return Case{Kind: "foreach-glob-names", Fail: []string{"tree does not decode: " + err.Error()}, Key: "fgn" + pat}
	}
	d := anyToContainer(map[string]any{"acc": "", "flag": "yes"})
	var err error
	if pn := guard(func() { err = pipeline.New(pipeline.WithData(d)).Execute(spec) }); pn != "" || err != nil {
		fail = append(fail, fmt.Sprintf("forEach over %s failed: %v %s", pat, err, pn))
	}
	wantAcc := ""
	for _, w := range want {
		wantAcc += "[" + w + "]"
	}
	fin, _ := nodeToAny(d).(map[string]any)
	if got := fmt.Sprint(fin["acc"]); got != wantAcc {
		fail = append(fail, fmt.Sprintf("forEach over the pattern %q bound %s, filepath.Glob matches %s", strings.TrimPrefix(pat, dir), strings.ReplaceAll(got, dir, ""), strings.ReplaceAll(wantAcc, dir, "")))
	}
	if _, there := fin["it"]; there {
		fail = append(fail, "the loop variable is still there after the forEach over a glob pattern")
	}
	return Case{Kind: "foreach-glob-names", Desc: map[string]any{"pattern": strings.TrimPrefix(pat, dir), "matches": len(want)}, Fail: fail, Nontrivial: len(want) >= 2, Key: fmt.Sprint("fgn", pat, len(want))}
}

// a variable name is a NAME (a key at the root of the data), whatever characters it holds: a dot in it does not make it a
// path — per item the body finds the item under exactly that key, and afterwards the key is gone and the rest of the
// data is as it was, on the normal exit and on the failing one (Go side only)
func c14ForEachOddVar(r *rand.Rand) Case {
	return c14OddVarCase([]string{"loop.item", "a.b.c", "x.", "it em", "é"}[r.Intn(5)], r.Intn(2) == 0, "")
}

// (a name ending in [n] is the one exception on the unchanged tree: the builder reads it as a list position — the C01
// finding, met again here; recorded in known_findings.txt under the token below, every other name is checked in earnest)
func c14ForEachIndexedVar() Case {
	return c14OddVarCase("item[0]", false, "variable-name-ending-in-[n]-is-read-as-a-list-position: ")
}

func c14OddVarCase(v string, failing bool, token string) Case {
	first := strings.Split(strings.Split(v, ".")[0], "[")[0]
	body := map[string]any{"template": map[string]any{"template": "{{ .acc }}[{{ index . \"" + v + "\" }}]", "path": "acc"}}
	if failing {
		body["steps"] = map[string]any{"boom": map[string]any{"order": 1, "when": "{{ eq (index . \"" + v + "\") \"i1\" }}", "abort": map[string]any{"message": "stop"}}}
	}
	tree := map[string]any{"forEach": map[string]any{"item": []any{"i0", "i1", "i2"}, "var": v, "action": body}}
	bs, _ := yaml.Marshal(tree)
	var spec pipeline.ActionSpec
	var fail []string
	if err := yaml.Unmarshal(bs, &spec); err != nil {
		return Case{Kind: "foreach-odd-var", Fail: []string{"tree does not decode: " + err.Error()}, Key: fmt.Sprint("fov", v, failing)}
	}
	start := map[string]any{"acc": "", "other": map[string]any{"k": 1}}
	if first != v { // user data under the name's first segment: none of the forEach's business
		start[first] = "keep"
	}
	d := anyToContainer(start)
	var err error
	if pn := guard(func() { err = pipeline.New(pipeline.WithData(d)).Execute(spec) }); pn != "" {
		fail = append(fail, token+"panic: "+pn)
	}
	if failing != (err != nil) {
		fail = append(fail, token+fmt.Sprintf("forEach with variable %q: error=%v, expected an error=%v", v, err, failing))
	}
	fin, _ := nodeToAny(d).(map[string]any)
	wantAcc := "[i0][i1][i2]"
	if failing {
		wantAcc = "[i0][i1]"
	}
	if fmt.Sprint(fin["acc"]) != wantAcc {
		fail = append(fail, token+fmt.Sprintf("forEach with variable %q: the body saw %v, expected %v", v, fin["acc"], wantAcc))
	}
	delete(fin, "acc")
	delete(start, "acc")
	if !reflect.DeepEqual(fin, start) {
		fail = append(fail, token+fmt.Sprintf("forEach with variable %q left %v behind (was %v)", v, fin, start))
	}
	return Case{Kind: "foreach-odd-var", Desc: map[string]any{"var": v, "failing": failing, "final": fin}, Fail: fail, Nontrivial: true, Key: fmt.Sprint("fov", v, failing)}
}

// a forEach whose item is given by reference, inside the body of another forEach that changes the
// referenced leaf per item: the reference is resolved every time the inner forEach runs (Go side only)
func c14ForEachRef(r *rand.Rand) Case {
	n := 2 + r.Intn(3)
	var items []any
	var want []string
	for i := 0; i < n; i++ {
		items = append(items, fmt.Sprintf("o%d", i))
		want = append(want, fmt.Sprintf("L:in=o%d", i))
	}
	form := r.Intn(2)
	// (observed through a template operation: its payload is rendered when it runs, a log message already when the outer body is cloned)
	inner := map[string]any{"var": "w", "action": map[string]any{"template": map[string]any{"template": "{{ .acc }}[{{ .w }}]", "path": "acc"}}}
	data := map[string]any{"lists": map[string]any{}}
	defer func() { _ = data }()
	if form == 0 {
		inner["item"] = []any{map[string]any{"ref": "it"}}
	} else { // query by reference: the referenced leaf names the list to walk
		inner["query"] = map[string]any{"ref": "it"}
		lists := map[string]any{}
		for i := 0; i < n; i++ {
			lists[fmt.Sprintf("o%d", i)] = []any{fmt.Sprintf("o%d", i)}
		}
		data = lists
	}
	data["acc"] = ""
	tree := map[string]any{"forEach": map[string]any{"item": items, "var": "it", "action": map[string]any{"forEach": inner}}}
	bs, _ := yaml.Marshal(tree)
	var spec pipeline.ActionSpec
	var fail []string
	if err := yaml.Unmarshal(bs, &spec); err != nil {
		return Case{Kind: "foreach-ref", Fail: []string{"tree does not decode: " + err.Error()}, Key: fmt.Sprint("fer", n, form)}
	}
	l := &evListener{}
	d := anyToContainer(data)
	var err error
	if pn := guard(func() { err = pipeline.New(pipeline.WithListener(l), pipeline.WithData(d)).Execute(spec) }); pn != "" || err != nil {
		fail = append(fail, fmt.Sprintf("forEach by reference failed: %v %s", err, pn))
	}
	wantAcc := ""
	for i := 0; i < n; i++ {
		wantAcc += fmt.Sprintf("[o%d]", i)
	}
	fin, _ := nodeToAny(d).(map[string]any)
	seen := fmt.Sprint(fin["acc"])
	if seen != wantAcc {
		fail = append(fail, fmt.Sprintf("inner forEach by reference visited %v, expected %v", seen, wantAcc))
	}
	_ = want
	return Case{Kind: "foreach-ref", Desc: map[string]any{"yaml": string(bs), "visited": seen}, Fail: fail, Nontrivial: true, Key: fmt.Sprint("fer", n, form)}
}

// counter loops: init, (test, body, post)^n, test
// a callable that calls another one without arguments: the inner one sees its own (empty) arguments,
// never its caller's
func c14CallNested(r *rand.Rand) Case {
	data := map[string]any{"flag": "yes"}
	ap := []string{"", "myargs"}[r.Intn(2)]
	readPath := "args"
	if ap != "" {
		readPath = ap
	}
	inner := leafAct("inner", pOp{Kind: "log", Tmpl: []tpart{{Lit: "inner x="}, {Var: readPath + ".x"}}})
	innerArgs := map[string]any{}
	if r.Intn(3) == 0 {
		innerArgs = litArgs(map[string]string{"y": "2"})
	}
	outer := &pAct{Name: "outer", Children: []*pAct{
		{Name: "o1", Order: 1, Ops: []pOp{{Kind: "log", Tmpl: []tpart{{Lit: "outer x="}, {Var: readPath + ".x"}}}}},
		{Name: "o2", Order: 2, Ops: []pOp{{Kind: "call", Name: "in", ArgsPath: ap, Args: innerArgs}}},
		{Name: "o3", Order: 3, Ops: []pOp{{Kind: "log", Tmpl: []tpart{{Lit: "outer again x="}, {Var: readPath + ".x"}}}}},
	}}
	root := &pAct{Name: "r", Children: []*pAct{
		{Name: "s0", Order: 0, Ops: []pOp{{Kind: "define", Name: "in", Body: inner}}},
		{Name: "s1", Order: 1, Ops: []pOp{{Kind: "define", Name: "out", Body: outer}}},
		{Name: "s2", Order: 2, Ops: []pOp{{Kind: "call", Name: "out", ArgsPath: ap, Args: litArgs(map[string]string{"x": "1"})}}},
	}}
	c := execCase("call-nested", root, data, true)
	if d, ok := c.Desc.(map[string]any); ok {
		if evs, ok := d["events"].([]string); ok {
			for _, e := range evs {
				if e == "L:inner x=1" {
					c.Fail = append(c.Fail, "a callee called without x read its caller's x")
				}
			}
		}
	}
	return c
}

// a counting loop far beyond the handful of iterations the interpreter-backed cases use: it runs
// exactly n times and ends normally (Go side only; arithmetic is the template engine's)
func c14LongLoop(r *rand.Rand) Case {
	n := []int{999, 1000, 1001, 1500, 2048}[r.Intn(5)]
	y := pipeline.ParseTextAsYaml
	init := pipeline.ActionSpec{}
	init.Operations.Set = &pipeline.SetOp{Data: map[string]any{"i": 0, "runs": 0}}
	body := pipeline.ActionSpec{}
	body.Operations.Template = &pipeline.TemplateOp{Template: "{{ add (.runs | int) 1 }}", Path: "runs", ParseAs: &y}
	post := pipeline.ActionSpec{}
	post.Operations.Template = &pipeline.TemplateOp{Template: "{{ add (.i | int) 1 }}", Path: "i", ParseAs: &y}
	loop := &pipeline.LoopOp{Init: &init, Test: fmt.Sprintf("{{ lt (.i | int) %d }}", n), Action: body, PostAction: &post}
	d := anyToContainer(map[string]any{"keep": 1})
	var err error
	var fail []string
	if pn := guard(func() { err = pipeline.New(pipeline.WithData(d)).Execute(loop) }); pn != "" {
		fail = append(fail, "panic in a long loop: "+pn)
	}
	if err != nil {
		fail = append(fail, fmt.Sprintf("a loop of %d iterations failed: %v", n, err))
	}
	fin, _ := nodeToAny(d).(map[string]any)
	if fmt.Sprint(fin["runs"]) != fmt.Sprint(n) || fmt.Sprint(fin["i"]) != fmt.Sprint(n) {
		fail = append(fail, fmt.Sprintf("a loop with bound %d ran its body %v times and left the counter at %v", n, fin["runs"], fin["i"]))
	}
	return Case{Kind: "loop-long", Desc: map[string]any{"n": n, "runs": fin["runs"], "i": fin["i"]}, Fail: fail, Nontrivial: true, Key: fmt.Sprint("long", n)}
}

func c14Loop(r *rand.Rand) Case {
	n := r.Intn(6)
	data := map[string]any{"flag": "yes"}
	init := leafAct("init", pOp{Kind: "set", Data: map[string]any{"i": 0}}, pOp{Kind: "log", Tmpl: []tpart{{Lit: "init"}}})
	body := &pAct{Name: "body", Ops: []pOp{logVar("body i=", "i")}}
	failAt := -1
	if n > 0 && r.Intn(3) == 0 {
		// fail exactly when i == failAt: (not i < failAt) and i < failAt+1
		failAt = r.Intn(n)
		body.Ops = append(body.Ops, pOp{Kind: "set", Data: map[string]any{"skip": "no"}})
		body.Children = []*pAct{
			{Name: "below", Order: 0, When: pCond{Kind: "lt", K: "i", N: failAt}, Ops: []pOp{{Kind: "set", Data: map[string]any{"skip": "yes"}}}},
			{Name: "at", Order: 1, When: pCond{Kind: "eq", K: "skip", S: "no"},
				Children: []*pAct{{Name: "boom", When: pCond{Kind: "lt", K: "i", N: failAt + 1}, Ops: []pOp{{Kind: "abort", Tmpl: []tpart{{Lit: "boom"}}}}}}},
		}
	}
	// the tiny language has no arithmetic: the post-action increments i through guarded steps,
	// the first step k with i < k+1 sets i = k+1 and marks the increment done
	post := &pAct{Name: "post", Ops: []pOp{logVar("post i=", "i"), {Kind: "set", Data: map[string]any{"stepdone": "no"}}}}
	for k := 0; k <= 5; k++ {
		post.Children = append(post.Children, &pAct{Name: fmt.Sprintf("inc%d", k), Order: k,
			When: pCond{Kind: "eq", K: "stepdone", S: "no"},
			Children: []*pAct{{Name: fmt.Sprintf("do%d", k), When: pCond{Kind: "lt", K: "i", N: k + 1},
				Ops: []pOp{{Kind: "set", Data: map[string]any{"i": k + 1, "stepdone": "yes"}}}}}})
	}
	loop := pOp{Kind: "loop", Init: init, Test: pCond{Kind: "lt", K: "i", N: n}, Body: body, Post: post}
	plain := true
	switch r.Intn(8) {
	case 0: // no post-action, test false at once
		loop.Post = nil
		loop.Test = pCond{Kind: "const", B: false}
		plain = false
	case 1: // no init: the counter comes from the data
		loop.Init = nil
		data["i"] = 0
	case 2: // test that is not a boolean
		loop.Test = pCond{Kind: "bad"}
		plain = false
	case 3: // a stale counter in the data: init runs first, so the first test sees init's value
		data["i"] = 9
	case 4: // init puts the counter beyond the bound although the data said otherwise: no iteration at all
		data["i"] = 0
		loop.Init = leafAct("init", pOp{Kind: "set", Data: map[string]any{"i": n + 1}}, pOp{Kind: "log", Tmpl: []tpart{{Lit: "init"}}})
		plain = false
	}
	root := &pAct{Name: "r", Ops: []pOp{loop, {Kind: "abort", Tmpl: []tpart{{Lit: "end marker"}}}}}
	c := execCase("loop", root, data, n >= 2)
	if d, ok := c.Desc.(map[string]any); ok && plain {
		if evs, ok := d["events"].([]string); ok {
			var seq []string
			for _, e := range evs {
				if strings.HasPrefix(e, "L:") {
					seq = append(seq, strings.TrimPrefix(e, "L:"))
				}
			}
			var want []string
			if loop.Init != nil {
				want = append(want, "init")
			}
			for i := 0; i < n; i++ {
				want = append(want, fmt.Sprintf("body i=%d", i))
				if failAt == i {
					break
				}
				want = append(want, fmt.Sprintf("post i=%d", i))
			}
			if !reflect.DeepEqual(seq, want) && !(len(seq) == 0 && len(want) == 0) {
				c.Fail = append(c.Fail, fmt.Sprintf("loop sequence %v, expected init,(body,post)^%d up to the failure: %v", seq, n, want))
			}
		}
	}
	return c
}

func init() {
	register(&Prop{
		ID:     "C14",
		Rule:   "kinds: foreach (literal items / list query / leaf query / unresolved query / the files a glob pattern matches in a temporary directory (each bound as its path, in listing order; a pattern matching nothing); variable name default or custom; body = log of the variable + optional trace/set + failure at one chosen item through a guarded child step or always; body's own when ignored), foreach-container (each key exactly once, any order; Go side only), call (define then call with single-key, default and dotted argsPath incl. paths next to existing data; undefined callee; same name defined twice; failing callee; second call; literal and templated arguments incl. a nested map, read back inside the callee), call-in-loop (a call in a forEach body, once or twice per item with the data changed in between: top-level and nested arguments must be rendered anew every time), literal items incl. the empty string, foreach-nested (a forEach in a forEach body, default and custom variable names on either level), define-then-call-later (two runs on one executor: a rejected second define must not replace the first), loop (counter loops with bounds 0-5 whose body and post-action log the counter, post increments it; body failing at i=0; loops whose test is false at once; a stale counter in the data before init; init that puts the counter beyond the bound). Observables: full event sequence, error, final data vs the Coq interpreter; Go side: variable / arguments absent afterwards, unrelated data undisturbed, items x body in order up to the failure, init,(test,body,post)^n,test. Non-trivial: failure at an inner item / dotted argsPath / >= 2 iterations. Distinct by Gallina term. Calls that pass nothing (with stale user data at the arguments path), a callee called without arguments from inside another callable, and (Go side only) counting loops of 999-2048 iterations. Templated argument paths; guarded steps reading what an earlier step of the same cloned body wrote; a body whose log operation reads what its template operation wrote; forEach items/queries by reference inside another forEach (Go side). A forEach whose query goes through the outer item; items by reference to a number and a boolean; step orders 5/10/100. Every 16th case (foreach-glob-names, Go side): patterns that are not in clean form and a file whose name looks like a template: the variable is bound to what filepath.Glob returns, letter for letter. Every 16th case (foreach-odd-var, Go side): variable names with dots and brackets are names, not paths: found by the body under exactly that key, gone afterwards, the rest of the data as it was, on both exits.",
		Corpus: func() []Case { return []Case{c14ForEachIndexedVar()} },
		Gen: func(r *rand.Rand, tier string, idx int) Case {
			if idx%16 == 11 {
				return c14ForEachOddVar(r)
			}
			if idx%16 == 3 {
				return c14GlobNames(r)
			}
			switch idx % 8 {
			case 0, 1, 2:
				return c14ForEach(r)
			case 3:
				return c14ForEachContainer(r)
			case 4, 5:
				return c14Call(r)
			case 6:
				switch r.Intn(3) {
				case 0:
					return c14DefineTwiceThenCall(r)
				case 1:
					return c14Nested(r)
				}
				switch r.Intn(6) {
				case 5:
					return c14QueryRecords(r)
				case 0:
					return c14CallNested(r)
				case 1:
					return c14BodyOrder(r)
				case 2:
					return c14ForEachRef(r)
				}
				return c14CallInLoop(r)
			default:
				if idx%64 == 7 {
					return c14LongLoop(r)
				}
				if idx%64 == 15 || idx%64 == 47 {
					return c14CallChain(r)
				}
				if idx%32 == 23 {
					return c14ForEachOverwriteLater(r)
				}
				return c14Loop(r)
			}
		},
	})
}

// a chain of n callables, each calling the next with its own arguments path (the call sits in the callable's operation
// set or in a child action): every one runs with its arguments and all arguments are gone afterwards (Go side only)
func c14CallChain(r *rand.Rand) Case {
	n := []int{5, 12, 13, 21, 22, 23, 40, 90}[r.Intn(8)]
	inSteps := r.Intn(2) == 0
	d := anyToContainer(map[string]any{"other": "keep"})
	lst := &evListener{}
	ex := pipeline.New(pipeline.WithListener(lst), pipeline.WithData(d))
	var fail []string
	for i := 0; i < n; i++ {
		spec := pipeline.ActionSpec{}
		spec.Operations.Log = &pipeline.LogOp{Message: fmt.Sprintf("c%d sees {{ .a%d.v }}", i, i)}
		if i+1 < n {
			ap := fmt.Sprintf("a%d", i+1)
			call := &pipeline.CallOp{Name: fmt.Sprintf("c%d", i+1), ArgsPath: &ap, Args: map[string]any{"v": fmt.Sprintf("v%d", i+1)}}
			if inSteps {
				child := pipeline.ActionSpec{}
				child.Operations.Call = call
				spec.Children = pipeline.ChildActions{"next": child}
			} else {
				spec.Operations.Call = call
			}
		}
		if err := ex.Execute(&pipeline.DefineOp{Name: fmt.Sprintf("c%d", i), Action: spec}); err != nil {
			fail = append(fail, fmt.Sprintf("define c%d: %v", i, err))
		}
	}
	a0 := "a0"
	var err error
	if pn := guard(func() { err = ex.Execute(&pipeline.CallOp{Name: "c0", ArgsPath: &a0, Args: map[string]any{"v": "v0"}}) }); pn != "" {
		fail = append(fail, "panic in a chain of calls: "+pn)
	}
	if err != nil {
		fail = append(fail, fmt.Sprintf("a chain of %d calls failed: %v", n, err))
	}
	var logs, want []string
	for _, e := range lst.evs {
		if e.Kind == "L" {
			logs = append(logs, e.Label)
		}
	}
	for i := n - 1; i >= 0; i-- { // children run after the action's own operations; within an operation set the call comes before the log
		want = append(want, fmt.Sprintf("c%d sees v%d", i, i))
	}
	if inSteps {
		for i, j := 0, len(want)-1; i < j; i, j = i+1, j-1 {
			want[i], want[j] = want[j], want[i]
		}
	}
	if !reflect.DeepEqual(logs, want) {
		fail = append(fail, fmt.Sprintf("a chain of %d calls logged %d lines (first %.3v), expected %d (first %.3v)", n, len(logs), logs, len(want), want))
	}
	if fin := nodeToAny(d); !reflect.DeepEqual(fin, any(map[string]any{"other": "keep"})) {
		fail = append(fail, fmt.Sprintf("after a chain of %d calls the data holds %d members, expected only the one it started with", n, len(fin.(map[string]any))))
	}
	return Case{Kind: "call-chain", Desc: map[string]any{"n": n, "in_steps": inSteps}, Fail: fail, Nontrivial: true, Key: fmt.Sprint("chain", n, inSteps)}
}

// a forEach over a list query whose body overwrites an item of that list it has not reached yet: the body runs once per
// item of the list the forEach started on (Go side only)
func c14ForEachOverwriteLater(r *rand.Rand) Case {
	n := 3 + r.Intn(4)
	var items []any
	want := ""
	for i := 0; i < n; i++ {
		items = append(items, fmt.Sprintf("i%d", i))
		want += fmt.Sprintf("[i%d]", i)
	}
	k := 1 + r.Intn(n-1) // overwritten from the first iteration on
	v := []string{"", "it"}[r.Intn(2)]
	vr := "forEach"
	if v != "" {
		vr = v
	}
	see := pipeline.ActionSpec{ActionMeta: pipeline.ActionMeta{Order: 1}}
	see.Operations.Template = &pipeline.TemplateOp{Template: "{{ .acc }}[{{ ." + vr + " }}]", Path: "acc"}
	over := pipeline.ActionSpec{ActionMeta: pipeline.ActionMeta{Order: 2}}
	over.Operations.Template = &pipeline.TemplateOp{Template: "done", Path: fmt.Sprintf("items[%d]", k)}
	body := pipeline.ActionSpec{Children: pipeline.ChildActions{"see": see, "over": over}}
	fe := &pipeline.ForEachOp{Query: &pipeline.ValOrRef{Val: "items"}, Action: body}
	if v != "" {
		fe.Variable = &v
	}
	d := anyToContainer(map[string]any{"items": items, "acc": "", "keep": 1})
	var err error
	var fail []string
	if pn := guard(func() { err = pipeline.New(pipeline.WithData(d)).Execute(fe) }); pn != "" {
		fail = append(fail, "panic: "+pn)
	}
	if err != nil {
		fail = append(fail, fmt.Sprintf("forEach over a list query failed: %v", err))
	}
	fin, _ := nodeToAny(d).(map[string]any)
	if fmt.Sprint(fin["acc"]) != want {
		fail = append(fail, fmt.Sprintf("forEach over a list of %d whose body overwrites item %d: the body saw %v, expected %v", n, k, fin["acc"], want))
	}
	items[k] = "done"
	if !reflect.DeepEqual(fin["items"], any(items)) || fin[vr] != nil || !reflect.DeepEqual(fin["keep"], 1) {
		fail = append(fail, fmt.Sprintf("after the forEach the data is %v", fin))
	}
	return Case{Kind: "foreach-overwrite-later", Desc: map[string]any{"n": n, "k": k, "var": v, "acc": fin["acc"]}, Fail: fail, Nontrivial: true, Key: fmt.Sprint("fol", n, k, v)}
}
