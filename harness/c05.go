package main

import (
	"fmt"
	"math/rand"
	"reflect"
	"sync"

	"github.com/rkosegi/yaml-toolkit/dom"
)

// ---- enumeration of all nodes up to a size bound over keys {a,b} and scalars {null,1,"x"}
var (
	enumOnce sync.Once
	enumBySz [][]any // enumBySz[s] = all values with exactly s nodes
)

func enumValues(maxSize int) []any {
	enumOnce.Do(func() {
		enumBySz = make([][]any, 5)
		enumBySz[1] = []any{nil, 1, "1", "x", []any{}, map[string]any{}}
		for s := 2; s <= 4; s++ {
			var out []any
			// lists: sequences of values with total size s-1
			var seqs func(rem int, acc []any)
			seqs = func(rem int, acc []any) {
				if rem == 0 {
					if len(acc) > 0 {
						out = append(out, append([]any{}, acc...))
					}
					return
				}
				for k := 1; k <= rem; k++ {
					for _, v := range enumBySz[k] {
						seqs(rem-k, append(acc, v))
					}
				}
			}
			seqs(s-1, nil)
			// maps over {a}, {b}, {a,b}
			for _, v := range enumBySz[s-1] {
				out = append(out, map[string]any{"a": v}, map[string]any{"b": v})
			}
			for ka := 1; ka <= s-2; ka++ {
				kb := s - 1 - ka
				if kb < 1 {
					continue
				}
				for _, va := range enumBySz[ka] {
					for _, vb := range enumBySz[kb] {
						out = append(out, map[string]any{"a": va, "b": vb})
					}
				}
			}
			enumBySz[s] = out
		}
	})
	var all []any
	for s := 1; s <= maxSize; s++ {
		all = append(all, enumBySz[s]...)
	}
	return all
}

func kindOf(v any) int {
	switch v.(type) {
	case map[string]any:
		return 2
	case []any:
		return 1
	default:
		return 0
	}
}

// build a node along different construction routes: builder API with fresh leaves, the decoder
// (FromMap: nulls are the shared nilLeaf), or a clone of either
func nodeVia(v any, route int) dom.Node {
	var n dom.Node
	switch route % 4 {
	case 0, 3:
		n = anyToNode(v)
	default:
		n = dom.Builder().FromMap(map[string]any{"w": v}).Child("w")
	}
	if route%4 == 2 {
		n = n.Clone()
	}
	if route%4 == 3 { // the read-only view of a builder is a node like any other
		if cb, ok := n.(dom.ContainerBuilder); ok {
			n = cb.Seal()
		} else if lb, ok := n.(dom.ListBuilder); ok {
			n = lb.Seal()
		}
	}
	return n
}

// keys are arbitrary strings for Equals: dots, blanks and the empty key are ordinary member names (a trailing [n] is not: the builder reads it as a list index)
var c05OddKeys = []string{"a", "a.b", "b", "", "x.y.z", "app.kubernetes.io/name", "a b", "a.b.c",
	// names that merely look like a list position: ordinary member names
	"tags[]", "offset[-1]", "delta[+2]", "x[y]", "[default]", "n[1", "disk[0]size", "a[b][1]x"}

func c05Eq(a, b any) Case { return c05EqVia(a, b, 0, 0) }

func c05EqVia(a, b any, ra, rb int) Case {
	na, nb := nodeVia(a, ra), nodeVia(b, rb)
	var ab, ba, aa bool
	var fail []string
	if pn := guard(func() { ab = na.Equals(nb); ba = nb.Equals(na); aa = na.Equals(na) }); pn != "" {
		fail = append(fail, "panic in Equals: "+pn)
	}
	want := kindOf(a) == kindOf(b) && reflect.DeepEqual(a, b)
	if ab != want {
		fail = append(fail, "Equals differs from deepEqual(plain)&&same kind")
	}
	if ab != ba {
		fail = append(fail, "Equals is not symmetric")
	}
	if !aa {
		fail = append(fail, "Equals is not reflexive")
	}
	return Case{Kind: "equals", Desc: map[string]any{"a": a, "b": b, "a.Equals(b)": ab, "b.Equals(a)": ba, "routes": []int{ra % 4, rb % 4}},
		Coq: "CEq " + gNode(a) + " " + gNode(b) + " " + gBool(ab), Fail: fail,
		Nontrivial: !want && kindOf(a) == kindOf(b) && kindOf(a) != 0}
}

func c05Trans(a, b, c any) Case {
	na, nb, nc := anyToNode(a), anyToNode(b), anyToNode(c)
	var fail []string
	ab, bc, ac := na.Equals(nb), nb.Equals(nc), na.Equals(nc)
	if ab && bc && !ac {
		fail = append(fail, "Equals is not transitive")
	}
	return Case{Kind: "trans", Desc: map[string]any{"a": a, "b": b, "c": c, "ab": ab, "bc": bc, "ac": ac},
		Coq: "CEq " + gNode(a) + " " + gNode(c) + " " + gBool(ac), Fail: fail, Nontrivial: ab && bc}
}

func c05Nil(a any) Case {
	na := anyToNode(a)
	var obs, same bool
	var fail []string
	if pn := guard(func() { obs = na.Equals(nil); same = na.SameAs(nil) }); pn != "" {
		fail = append(fail, "panic in Equals(nil): "+pn)
	}
	if obs || same {
		fail = append(fail, "Equals(nil)/SameAs(nil) returned true")
	}
	return Case{Kind: "nil", Desc: map[string]any{"a": a, "a.Equals(nil)": obs},
		Coq: "CEqNil " + gNode(a) + " " + gBool(obs), Fail: fail, Nontrivial: kindOf(a) != 0}
}

func c05Same(a, b any) Case { return c05SameVia(a, b, 0, 0) }

func c05SameVia(a, b any, ra, rb int) Case {
	na, nb := nodeVia(a, ra), nodeVia(b, rb)
	obs := na.SameAs(nb)
	var fail []string
	if obs != (kindOf(a) == kindOf(b)) {
		fail = append(fail, "SameAs is not kind equality")
	}
	return Case{Kind: "sameas", Desc: map[string]any{"a": a, "b": b, "SameAs": obs, "routes": []int{ra % 4, rb % 4}},
		Coq: "CSame " + gNode(a) + " " + gNode(b) + " " + gBool(obs), Fail: fail, Nontrivial: kindOf(a) != kindOf(b)}
}

// collect all builder nodes of a tree (for edits at any depth)
func collectBuilders(n dom.Node, cbs *[]dom.ContainerBuilder, lbs *[]dom.ListBuilder) {
	if cb, ok := n.(dom.ContainerBuilder); ok {
		*cbs = append(*cbs, cb)
		for _, k := range sortedKeys(cb.Children()) {
			collectBuilders(cb.Children()[k], cbs, lbs)
		}
	} else if lb, ok := n.(dom.ListBuilder); ok {
		*lbs = append(*lbs, lb)
		for _, it := range lb.Items() {
			collectBuilders(it, cbs, lbs)
		}
	}
}

// one random in-place edit somewhere inside n; returns a description
func randomEdit(r *rand.Rand, n dom.Node) string {
	var cbs []dom.ContainerBuilder
	var lbs []dom.ListBuilder
	collectBuilders(n, &cbs, &lbs)
	if len(cbs)+len(lbs) == 0 {
		return "none"
	}
	i := r.Intn(len(cbs) + len(lbs))
	if i < len(cbs) {
		cb := cbs[i]
		k := safeKeys[r.Intn(4)]
		switch r.Intn(4) {
		case 0:
			cb.Remove(k)
			return "Remove " + k
		case 1:
			cb.AddContainer(k).AddValue("n", dom.LeafNode(r.Intn(100)))
			return "AddContainer " + k
		case 2:
			cb.AddList(k).Append(dom.LeafNode("e"))
			return "AddList " + k
		default:
			cb.AddValue(k, dom.LeafNode(100+r.Intn(100)))
			return "AddValue " + k
		}
	}
	lb := lbs[i-len(cbs)]
	if lb.Size() > 0 && r.Intn(4) == 0 {
		lb.MustSet(uint(r.Intn(lb.Size())), dom.LeafNode(400+r.Intn(100)))
		return "MustSet"
	}
	switch r.Intn(3) {
	case 0:
		lb.Append(dom.LeafNode(200 + r.Intn(100)))
		return "Append"
	case 1:
		lb.Set(uint(r.Intn(3)), dom.LeafNode(300+r.Intn(100)))
		return "Set"
	default:
		lb.Clear()
		return "Clear"
	}
}

func c05Clone(r *rand.Rand, a any, editClone bool) Case {
	na := nodeVia(a, r.Intn(2))
	// a document with history: containers emptied again (their map stays allocated), lists cleared
	if r.Intn(2) == 0 {
		var cbs []dom.ContainerBuilder
		var lbs []dom.ListBuilder
		collectBuilders(na, &cbs, &lbs)
		for _, cb := range cbs {
			if r.Intn(3) == 0 {
				cb.AddValue("tmp", dom.LeafNode(1))
				for k := range cb.Children() {
					cb.Remove(k)
				}
			}
		}
		for _, lb := range lbs {
			if r.Intn(4) == 0 {
				lb.Clear()
			}
		}
		a = nodeToAny(na)
	}
	var cl dom.Node
	var fail []string
	if pn := guard(func() { cl = na.Clone() }); pn != "" {
		return Case{Kind: "clone", Desc: map[string]any{"a": a, "panic": pn}, Fail: []string{"panic in Clone: " + pn}, Nontrivial: true}
	}
	got := nodeToAny(cl)
	if !reflect.DeepEqual(got, a) || kindOf(got) != kindOf(a) {
		fail = append(fail, "plain(clone) != plain(original)")
	}
	if !cl.Equals(na) || !na.Equals(cl) || !cl.SameAs(na) {
		fail = append(fail, "clone does not equal / is not the same kind as its original")
	}
	// independence: edit one side 1-10 times, the other must not change
	var edits []string
	target, other, otherPlain := na, cl, got
	if editClone {
		target, other, otherPlain = cl, na, a
	}
	pn := guard(func() {
		for i, k := 0, 1+r.Intn(10); i < k; i++ {
			edits = append(edits, randomEdit(r, target))
			if !reflect.DeepEqual(nodeToAny(other), otherPlain) {
				fail = append(fail, "editing one of (original, clone) changed the other")
				return
			}
		}
	})
	if pn != "" {
		fail = append(fail, "panic while editing: "+pn)
	}
	return Case{Kind: "clone", Desc: map[string]any{"a": a, "edit_clone": editClone, "edits": edits},
		Coq: "CClone " + gNode(a) + " " + gNode(got), Fail: fail, Nontrivial: sizeOf(a) > 2}
}

// Equals answers from the CURRENT content of both operands: read both (Equals both ways, accessors),
// edit one of them in place, compare again — against the plain views taken after the edit
func c05EditEquals(r *rand.Rand, a any) Case {
	x, y := nodeVia(a, r.Intn(3)), nodeVia(a, r.Intn(3))
	var fail []string
	var edits []string
	pn := guard(func() {
		_, _ = x.Equals(y), y.Equals(x)
		if l, ok := y.(dom.List); ok {
			_, _ = l.Items(), l.AsSlice()
		}
		for i, k := 0, 1+r.Intn(6); i < k; i++ {
			edits = append(edits, randomEdit(r, y))
			_ = nodeToAny(y) // reads in between
			px, py := nodeToAny(x), nodeToAny(y)
			want := kindOf(px) == kindOf(py) && reflect.DeepEqual(px, py)
			if x.Equals(y) != want || y.Equals(x) != want {
				fail = append(fail, fmt.Sprintf("after edits %v: x.Equals(y)=%v y.Equals(x)=%v, deepEqual(plain)=%v", edits, x.Equals(y), y.Equals(x), want))
				return
			}
		}
	})
	if pn != "" {
		fail = append(fail, "panic: "+pn)
	}
	return Case{Kind: "edit-equals", Desc: map[string]any{"a": a, "edits": edits}, Fail: fail, Nontrivial: len(edits) >= 2, Key: fmt.Sprint(a, edits)}
}

// a clone shares no state with its original — also when the original holds sealed (read-only)
// views of builders that are edited afterwards
func c05CloneSealed(r *rand.Rand, a any, b any) Case {
	inner := anyToNode(map[string]any{"in": b, "l": []any{b, 1}})
	innerL := dom.ListNode(dom.LeafNode(1), anyToNode(b))
	parent := anyToContainer(map[string]any{"own": a})
	parent.AddValue("sealedC", inner.(dom.ContainerBuilder).Seal())
	parent.AddValue("sealedL", innerL.Seal())
	parent.AddList("lst").Append(inner.(dom.ContainerBuilder).Seal())
	var fail []string
	var edits []string
	pn := guard(func() {
		cl := parent.Clone()
		before := nodeToAny(cl)
		if !cl.Equals(parent) || !parent.Equals(cl) {
			fail = append(fail, "clone does not equal its original")
		}
		for i := 0; i < 6; i++ {
			edits = append(edits, randomEdit(r, inner), randomEdit(r, innerL))
		}
		if !reflect.DeepEqual(nodeToAny(cl), before) {
			fail = append(fail, "editing (through its builder) a sealed node held by the original changed the clone")
		}
	})
	if pn != "" {
		fail = append(fail, "panic: "+pn)
	}
	return Case{Kind: "clone-sealed", Desc: map[string]any{"a": a, "b": b, "edits": edits}, Fail: fail, Nontrivial: true, Key: fmt.Sprint(a, b, edits)}
}

// mutate a plain value by one edit (for "one-edit apart" pairs)
func mutateVal(r *rand.Rand, v any, o genOpts) any {
	switch x := v.(type) {
	case map[string]any:
		m := map[string]any{}
		for k, c := range x {
			m[k] = c
		}
		ks := sortedKeys(m)
		switch {
		case len(ks) > 0 && r.Intn(3) == 0:
			delete(m, ks[r.Intn(len(ks))])
		case len(ks) > 0 && r.Intn(2) == 0:
			k := ks[r.Intn(len(ks))]
			m[k] = mutateVal(r, m[k], o)
		default:
			m[o.keys[r.Intn(len(o.keys))]] = genVal(r, o, 2, false)
		}
		return m
	case []any:
		l := append([]any{}, x...)
		switch {
		case len(l) > 0 && r.Intn(3) == 0:
			l = l[:len(l)-1]
		case len(l) > 0 && r.Intn(2) == 0:
			i := r.Intn(len(l))
			l[i] = mutateVal(r, l[i], o)
		default:
			l = append(l, genVal(r, o, 2, true))
		}
		return l
	default:
		return genVal(r, o, 3, false)
	}
}

func init() {
	register(&Prop{
		ID:   "C05",
		Rule: "kinds: equals (exhaustive ordered pairs of all nodes with <= 2 (quick) / <= 3 (thorough) nodes over keys {a,b} and scalars {null,1,\"1\",\"x\"}, then random pairs: equal / one-edit apart / unrelated; every operand built along one of four routes: builder API, decoder (FromMap), Clone, sealed read-only view; a third of the random documents use odd member names: dots, slashes, blanks, the empty key, and names that merely look like list positions: tags[], offset[-1], delta[+2], x[y], [default]), trans (triples), nil, sameas, edit-equals (Equals re-evaluated against the plain views after every one of 1-6 in-place edits, incl. MustSet, of one operand that has been read before), clone-sealed (the original holds sealed views of builders that are edited after cloning), clone (clone then 1-10 random in-place edits of the original or of the clone; the other side must not change). Non-trivial: same-kind unequal composite pair; clone of a document with > 2 nodes. Distinct by Gallina term.",
		Corpus: func() []Case {
			return []Case{
				c05Eq(map[string]any{"a": 1}, map[string]any{"a": 1, "b": 2}), // pinned-tree defect
				c05Eq(map[string]any{}, map[string]any{"a": 1}),
				c05Eq(map[string]any{"a": 1}, map[string]any{"a": 1.0}),
				c05Eq([]any{1, nil}, []any{1}),
			}
		},
		Gen: func(r *rand.Rand, tier string, idx int) Case {
			maxSz := 2
			if tier == "thorough" {
				maxSz = 3
			}
			all := enumValues(maxSz)
			e := idx - 4
			if e >= 0 && e < len(all)*len(all) {
				return c05EqVia(all[e/len(all)], all[e%len(all)], idx, idx/4)
			}
			if idx%128 == 77 {
				return c05DeepClone(r)
			}
			o := defaultOpts()
			if r.Intn(3) == 0 {
				o.keys = c05OddKeys
			}
			a := genVal(r, o, 1, false)
			switch r.Intn(10) {
			case 0, 1:
				return c05EqVia(a, mutateVal(r, a, o), r.Intn(4), r.Intn(4))
			case 2:
				return c05EqVia(a, a, r.Intn(4), r.Intn(4))
			case 3:
				return c05EqVia(a, genVal(r, o, 1, false), r.Intn(4), r.Intn(4))
			case 4:
				b := mutateVal(r, a, o)
				if r.Intn(2) == 0 {
					b = a
				}
				c := b
				if r.Intn(2) == 0 {
					c = mutateVal(r, b, o)
				}
				return c05Trans(a, b, c)
			case 5:
				return c05Nil(a)
			case 6:
				return c05SameVia(a, genVal(r, o, 1, false), r.Intn(4), r.Intn(4))
			case 7:
				if r.Intn(2) == 0 {
					return c05EditEquals(r, genVal(r, o, 1, true))
				}
				return c05EditEquals(r, genDoc(r, o))
			case 8:
				return c05CloneSealed(r, genDoc(r, o), genVal(r, o, 2, false))
			default:
				return c05Clone(r, genDoc(r, o), r.Intn(2) == 0)
			}
		},
	})
}

// a clone is independent of its original at EVERY depth: mappings wrapped in lists, 20 to 120 levels down; an edit of the
// original at the bottom (and one half-way) leaves the clone as it was, and the reverse
func c05DeepClone(r *rand.Rand) Case {
	levels := 20 + r.Intn(50)
	var fail []string
	pn := guard(func() {
		root := dom.Builder().Container()
		cur := root
		var mid dom.ContainerBuilder
		for i := 0; i < levels; i++ {
			l := cur.AddList("l")
			next := dom.Builder().Container()
			l.Append(next)
			next.AddValue("depth", dom.LeafNode(i))
			if i == levels/2 {
				mid = next
			}
			cur = next
		}
		clone := root.Clone().(dom.ContainerBuilder)
		if !clone.Equals(root) || !root.Equals(clone) {
			fail = append(fail, fmt.Sprintf("a clone of a document %d levels deep does not equal its original", 2*levels))
		}
		before := fmt.Sprint(nodeToAnyDeep(clone))
		cur.AddValue("edited-at-the-bottom", dom.LeafNode("x"))
		mid.AddValue("edited-half-way", dom.LeafNode("y"))
		if after := fmt.Sprint(nodeToAnyDeep(clone)); after != before {
			fail = append(fail, fmt.Sprintf("editing the original %d levels down changed its clone", 2*levels))
		}
		if clone.Equals(root) {
			fail = append(fail, "original and clone still equal after the original was edited at the bottom")
		}
	})
	if pn != "" {
		fail = append(fail, "panic: "+pn)
	}
	return Case{Kind: "clone-deep", Desc: map[string]any{"levels": 2 * levels}, Fail: fail, Nontrivial: true, Key: fmt.Sprint("deepclone", levels)}
}

// plain view without the harness's depth cut-off (documents here are known to be trees)
func nodeToAnyDeep(n dom.Node) any {
	switch {
	case n == nil:
		return nil
	case n.IsContainer():
		m := map[string]any{}
		for k, c := range n.(dom.Container).Children() {
			m[k] = nodeToAnyDeep(c)
		}
		return m
	case n.IsList():
		var l []any
		for _, c := range n.(dom.List).Items() {
			l = append(l, nodeToAnyDeep(c))
		}
		return l
	default:
		return n.(dom.Leaf).Value()
	}
}
