package main

import (
	"fmt"
	"math/rand"
	"reflect"
	"strconv"
	"strings"

	"github.com/rkosegi/yaml-toolkit/diff"
	"github.com/rkosegi/yaml-toolkit/dom"
	"github.com/rkosegi/yaml-toolkit/patch"
	"github.com/rkosegi/yaml-toolkit/xform"
)

// ---------- RFC 6902 reference interpreter over plain values (independent of the toolkit)
func rget(v any, p []string) (any, bool) { return refEval(p, v) }

func rmod(v any, p []string, f func(parent any, last string) (any, bool)) (any, bool) {
	if len(p) == 1 {
		return f(v, p[0])
	}
	switch x := v.(type) {
	case map[string]any:
		c, ok := x[p[0]]
		if !ok {
			return nil, false
		}
		nc, ok := rmod(c, p[1:], f)
		if !ok {
			return nil, false
		}
		m := deepCopy(x).(map[string]any)
		m[p[0]] = nc
		return m, true
	case []any:
		i, ok := canonIndex(p[0])
		if !ok || i >= len(x) {
			return nil, false
		}
		nc, ok := rmod(x[i], p[1:], f)
		if !ok {
			return nil, false
		}
		l := deepCopy(x).([]any)
		l[i] = nc
		return l, true
	}
	return nil, false
}

func radd(root any, p []string, val any) (any, bool) {
	return rmod(root, p, func(parent any, last string) (any, bool) {
		switch x := parent.(type) {
		case map[string]any:
			m := deepCopy(x).(map[string]any)
			m[last] = deepCopy(val)
			return m, true
		case []any:
			i, ok := canonIndex(last)
			if !ok || i > len(x) {
				return nil, false
			}
			l := make([]any, 0, len(x)+1)
			l = append(l, x[:i]...)
			l = append(l, deepCopy(val))
			l = append(l, x[i:]...)
			return deepCopy(l), true
		}
		return nil, false
	})
}

func rremove(root any, p []string) (any, bool) {
	return rmod(root, p, func(parent any, last string) (any, bool) {
		switch x := parent.(type) {
		case map[string]any:
			if _, ok := x[last]; !ok {
				return nil, false
			}
			m := deepCopy(x).(map[string]any)
			delete(m, last)
			return m, true
		case []any:
			i, ok := canonIndex(last)
			if !ok || i >= len(x) {
				return nil, false
			}
			l := make([]any, 0, len(x))
			l = append(l, x[:i]...)
			l = append(l, x[i+1:]...)
			return deepCopy(l), true
		}
		return nil, false
	})
}

type rop struct {
	Op      string   `json:"op"`
	Path    []string `json:"path"`
	From    []string `json:"from,omitempty"`
	HasFrom bool     `json:"-"`
	Val     any      `json:"value,omitempty"`
	HasVal  bool     `json:"-"`
	// an operation object made by the library itself (xform.DiffMod2PatchOp): handed to patch.Do as it is
	obj *patch.OpObj
}

func properPrefix(a, b []string) bool {
	if len(a) >= len(b) {
		return false
	}
	for i := range a {
		if a[i] != b[i] {
			return false
		}
	}
	return true
}

func rdo(root any, o rop) (any, bool) {
	needVal := o.Op == "add" || o.Op == "replace" || o.Op == "test"
	needFrom := o.Op == "move" || o.Op == "copy"
	if (needVal && !o.HasVal) || (needFrom && !o.HasFrom) {
		return nil, false
	}
	switch o.Op {
	case "add":
		return radd(root, o.Path, o.Val)
	case "remove":
		return rremove(root, o.Path)
	case "replace":
		if _, ok := rget(root, o.Path); !ok {
			return nil, false
		}
		r1, ok := rremove(root, o.Path)
		if !ok {
			return nil, false
		}
		return radd(r1, o.Path, o.Val)
	case "test":
		v, ok := rget(root, o.Path)
		if !ok || !reflect.DeepEqual(v, o.Val) || kindOf(v) != kindOf(o.Val) {
			return nil, false
		}
		return root, true
	case "copy":
		v, ok := rget(root, o.From)
		if !ok {
			return nil, false
		}
		return radd(root, o.Path, v)
	case "move":
		v, ok := rget(root, o.From)
		if !ok || properPrefix(o.From, o.Path) {
			return nil, false
		}
		r1, ok := rremove(root, o.From)
		if !ok {
			return nil, false
		}
		return radd(r1, o.Path, v)
	}
	return nil, false
}

// pointers drawn from existing locations, their neighbours and non-existent locations
func c09Pointer(r *rand.Rand, doc any) []string {
	var toks []string
	cur := doc
	for depth := 0; depth < 5; depth++ {
		switch x := cur.(type) {
		case map[string]any:
			ks := sortedKeys(x)
			if len(ks) > 0 && r.Intn(4) != 0 {
				k := ks[r.Intn(len(ks))]
				toks = append(toks, k)
				cur = x[k]
			} else {
				toks = append(toks, []string{"new", "a", "0", "zz"}[r.Intn(4)])
				cur = nil
			}
		case []any:
			switch r.Intn(10) {
			case 0:
				toks = append(toks, []string{"x", "-1", "01", "1x", "18446744073709551616", "18446744073709551617", "9223372036854775808"}[r.Intn(7)])
				cur = nil
			case 1, 2:
				toks = append(toks, strconv.Itoa(len(x)+r.Intn(2))) // len (append position) or len+1
				cur = nil
			default:
				if len(x) == 0 {
					toks = append(toks, "0")
					cur = nil
				} else {
					i := r.Intn(len(x))
					toks = append(toks, strconv.Itoa(i))
					cur = x[i]
				}
			}
		default:
			if len(toks) > 0 && r.Intn(3) != 0 {
				return toks
			}
			toks = append(toks, []string{"a", "0"}[r.Intn(2)])
			return toks
		}
		if len(toks) > 0 && r.Intn(3) == 0 {
			return toks
		}
	}
	if len(toks) == 0 {
		toks = []string{"a"}
	}
	return toks
}

func c09GenOp(r *rand.Rand, doc any, o genOpts) rop {
	op := rop{Op: []string{"add", "add", "remove", "replace", "move", "move", "copy", "copy", "test"}[r.Intn(9)]}
	op.Path = c09Pointer(r, doc)
	switch op.Op {
	case "add", "replace":
		op.HasVal = r.Intn(15) != 0
		op.Val = genVal(r, o, 2, false)
	case "test":
		op.HasVal = r.Intn(15) != 0
		if v, ok := rget(doc, op.Path); ok && r.Intn(4) == 0 {
			// a look-alike of another type: the text that spells the number/boolean, or the reverse
			switch x := v.(type) {
			case int:
				op.Val = strconv.Itoa(x)
			case bool:
				op.Val = fmt.Sprint(x)
			case string:
				if n, err := strconv.Atoi(x); err == nil {
					op.Val = n
				} else {
					op.Val = deepCopy(v)
				}
			default:
				op.Val = deepCopy(v)
			}
		} else if m, isMap := v.(map[string]any); ok && isMap && len(m) > 0 && r.Intn(3) == 0 {
			// a mapping that holds only SOME of the members found there (or none): not equal, the test fails
			sub := deepCopy(m).(map[string]any)
			for _, k := range sortedKeys(sub) {
				if r.Intn(2) == 0 || len(sub) == len(m) {
					delete(sub, k)
				}
			}
			op.Val = sub
		} else if l, isList := v.([]any); ok && isList && len(l) > 0 && r.Intn(3) == 0 {
			op.Val = deepCopy(l[:len(l)-1]) // a proper prefix of the list found there
		} else if ok && r.Intn(2) == 0 {
			op.Val = deepCopy(v)
		} else {
			op.Val = genVal(r, o, 2, false)
		}
	case "move", "copy":
		op.HasFrom = r.Intn(15) != 0
		op.From = c09Pointer(r, doc)
		if r.Intn(6) == 0 && len(op.From) > 0 { // move into own descendant
			op.Path = append(append([]string{}, op.From...), []string{"x", "0"}[r.Intn(2)])
		}
		if r.Intn(8) == 0 {
			op.Path = append([]string{}, op.From...)
		}
	}
	return op
}

// a pointer reaches patch.Do as a token sequence or — as it does from a patch document or
// pipeline.PatchOp — as RFC 6901 text parsed by the library (every second pointer goes that way)
var toPathCount int

func toPath(p []string) patch.Path {
	toPathCount++
	if toPathCount%2 == 0 && len(p) > 0 {
		var sb strings.Builder
		for _, t := range p {
			sb.WriteString("/")
			sb.WriteString(strings.ReplaceAll(strings.ReplaceAll(t, "~", "~0"), "/", "~1"))
		}
		if pp, err := patch.ParsePath(sb.String()); err == nil {
			return pp
		}
	}
	out := make(patch.Path, 0, len(p))
	for _, t := range p {
		out = append(out, patch.PathSegment(t))
	}
	return out
}

func (o rop) toOpObj() *patch.OpObj {
	if o.obj != nil {
		return o.obj
	}
	obj := &patch.OpObj{Op: patch.Op(o.Op), Path: toPath(o.Path)}
	if o.HasVal {
		obj.Value = anyToNode(o.Val)
	}
	if o.HasFrom {
		f := toPath(o.From)
		obj.From = &f
	}
	return obj
}

func gOptStrs(p []string, has bool) string {
	if !has {
		return "None"
	}
	return "(Some " + gStrs(p) + ")"
}

func (o rop) gallina() string {
	val := "None"
	if o.HasVal {
		val = "(Some " + gNode(o.Val) + ")"
	}
	switch o.Op {
	case "add":
		return "PAdd " + gStrs(o.Path) + " " + val
	case "remove":
		return "PRemove " + gStrs(o.Path)
	case "replace":
		return "PReplace " + gStrs(o.Path) + " " + val
	case "move":
		return "PMove " + gOptStrs(o.From, o.HasFrom) + " " + gStrs(o.Path)
	case "copy":
		return "PCopy " + gOptStrs(o.From, o.HasFrom) + " " + gStrs(o.Path)
	default:
		return "PTest " + gStrs(o.Path) + " " + val
	}
}

func (o rop) String() string {
	s := o.Op + " /" + strings.Join(o.Path, "/")
	if o.HasFrom {
		s += " from=/" + strings.Join(o.From, "/")
	}
	if o.HasVal {
		s += fmt.Sprintf(" value=%v", o.Val)
	}
	return s
}

func c09Run(r *rand.Rand, start map[string]any, ops []rop, gen func(cur any) rop, n int) Case {
	// the document under the patch is hand-built or decoded (decoders reuse one shared leaf object for every null)
	d := anyToContainer(start)
	if len(fmt.Sprint(start))%2 == 0 {
		if dd := dom.Builder().FromMap(deepCopy(start).(map[string]any)); reflect.DeepEqual(nodeToAny(dd), nodeToAny(d)) {
			d = dd
		}
	}
	var cur any = deepCopy(start)
	var fail []string
	var obs, descs, coqs []string
	sawOkThenFail, okSeen := false, false
	var copies [][2][]string // (from, path) of successful copies, for the aliasing check
	for i := 0; i < n; i++ {
		var op rop
		if ops != nil {
			op = ops[i]
		} else {
			op = gen(cur)
		}
		before := nodeToAny(d)
		var err error
		pn := guard(func() { err = patch.Do(op.toOpObj(), d) })
		after := nodeToAny(d)
		descs = append(descs, op.String())
		coqs = append(coqs, op.gallina())
		if pn != "" {
			fail = append(fail, fmt.Sprintf("step %d (%s) panicked: %s", i+1, op, pn))
			obs = append(obs, "("+gNode(after)+", false)")
			break
		}
		want, wok := rdo(cur, op)
		if wok != (err == nil) {
			fail = append(fail, fmt.Sprintf("step %d (%s): impl success=%v, RFC reference success=%v", i+1, op, err == nil, wok))
		} else if wok && !reflect.DeepEqual(after, want) {
			fail = append(fail, fmt.Sprintf("step %d (%s): resulting document differs from the RFC reference", i+1, op))
		}
		if err != nil && !reflect.DeepEqual(after, before) {
			fail = append(fail, fmt.Sprintf("step %d (%s) failed but changed the document", i+1, op))
		}
		if err == nil {
			okSeen = true
			if op.Op == "copy" {
				copies = append(copies, [2][]string{op.From, op.Path})
			}
		} else if okSeen {
			sawOkThenFail = true
		}
		obs = append(obs, "("+gNode(after)+", "+gBool(err == nil)+")")
		if wok {
			cur = want
		}
		if len(fail) > 0 {
			break
		}
	}
	return Case{Kind: "patch", Desc: map[string]any{"start": start, "ops": descs, "final": nodeToAny(d)},
		Coq:  "CPatch " + gNode(start) + " [" + strings.Join(coqs, "; ") + "] [" + strings.Join(obs, "; ") + "]",
		Fail: fail, Nontrivial: sawOkThenFail}
}

// the steps of a flatten-style path, read independently of the library: a.b[1][0].c -> a b 1 0 c
func c09PathTokens(p string) []string {
	var out []string
	for _, comp := range strings.Split(p, ".") {
		name := comp
		var idx []string
		for strings.HasSuffix(name, "]") {
			i := strings.LastIndex(name, "[")
			if i < 0 {
				break
			}
			idx = append([]string{name[i+1 : len(name)-1]}, idx...)
			name = name[:i]
		}
		out = append(append(out, name), idx...)
	}
	return out
}

// xform.DiffMod2PatchOp output fed to patch.Do: every modification of Diff(L, R) becomes an operation object (Add -> add,
// Change -> replace, Delete -> remove, pointer = the steps of the modification's path, value = its leaf); the operations
// are applied to R one after the other, each step against the RFC reference and the model
func c09FromDiff(r *rand.Rand) Case {
	o := defaultOpts()
	o.maxDepth = 3
	o.pointerRoute = true
	l := c08GenDoc(r, o) // (whole and fractional floats included)
	rr := c08Derive(r, l, o, []string{"n1", "n2", "zz"})
	if r.Intn(3) == 0 {
		l, rr = rr, l
	}
	var fail []string
	var ops []rop
	pn := guard(func() {
		mods := c09InnerMods(*diff.Diff(anyToContainer(l), anyToContainer(rr)))
		for _, m := range mods {
			obj := xform.DiffMod2PatchOp(m)
			if obj == nil {
				fail = append(fail, fmt.Sprintf("DiffMod2PatchOp(%v %s) returned no operation", m.Type, m.Path))
				continue
			}
			want := map[diff.ModificationType]string{diff.ModAdd: "add", diff.ModChange: "replace", diff.ModDelete: "remove"}[m.Type]
			toks := make([]string, 0, len(obj.Path))
			for _, seg := range obj.Path {
				toks = append(toks, string(seg))
			}
			if string(obj.Op) != want || !reflect.DeepEqual(toks, c09PathTokens(m.Path)) {
				fail = append(fail, fmt.Sprintf("DiffMod2PatchOp(%v %s) = %s %v, expected %s %v", m.Type, m.Path, obj.Op, toks, want, c09PathTokens(m.Path)))
			}
			op := rop{Op: want, Path: toks, obj: obj}
			if m.Type != diff.ModDelete {
				if obj.Value == nil || !reflect.DeepEqual(nodeToAny(obj.Value), m.Value) {
					fail = append(fail, fmt.Sprintf("DiffMod2PatchOp(%v %s): value %v, the modification carries %v", m.Type, m.Path, obj.Value, m.Value))
				}
				op.HasVal, op.Val = true, m.Value
			}
			ops = append(ops, op)
		}
		// an unknown modification type has no operation
		if xform.DiffMod2PatchOp(diff.Modification{Type: "Rename", Path: "a"}) != nil {
			fail = append(fail, "DiffMod2PatchOp made an operation out of an unknown modification type")
		}
	})
	if pn != "" {
		fail = append(fail, "panic: "+pn)
	}
	if len(ops) > 14 {
		ops = ops[:14]
	}
	c := c09Run(r, rr, ops, nil, len(ops))
	c.Kind = "from-diff"
	c.Fail = append(fail, c.Fail...)
	c.Nontrivial = len(ops) >= 2
	return c
}

// the conversion alone, against the model's mod2pop: the same modifications, the operation objects the library makes of them
func c09FromDiffOps(r *rand.Rand) Case {
	o := defaultOpts()
	o.maxDepth = 3
	o.pointerRoute = true
	l := c08GenDoc(r, o) // (whole and fractional floats included)
	rr := c08Derive(r, l, o, []string{"n1", "n2", "zz"})
	if r.Intn(3) == 0 {
		l, rr = rr, l
	}
	var fail []string
	var mods []diff.Modification
	var ops []string
	if pn := guard(func() {
		mods = *diff.Diff(anyToContainer(l), anyToContainer(rr)) // (every modification: the model's reader leaves separators at either end out as well)
		if len(mods) > 20 {
			mods = mods[:20]
		}
		for _, m := range mods {
			obj := xform.DiffMod2PatchOp(m)
			if obj == nil {
				fail = append(fail, fmt.Sprintf("DiffMod2PatchOp(%v %s) returned no operation", m.Type, m.Path))
				return
			}
			op := rop{Op: string(obj.Op)}
			for _, seg := range obj.Path {
				op.Path = append(op.Path, string(seg))
			}
			if obj.Value != nil {
				op.HasVal, op.Val = true, nodeToAny(obj.Value)
			}
			ops = append(ops, op.gallina())
		}
	}); pn != "" {
		fail = append(fail, "panic: "+pn)
	}
	return Case{Kind: "from-diff-ops", Desc: map[string]any{"l": l, "r": rr, "mods": modsDesc(mods)},
		Coq: "CFromDiff " + gList(mods, gMod) + " [" + strings.Join(ops, "; ") + "]", Fail: fail, Nontrivial: len(mods) >= 2}
}

// operation objects that are no operations: patch.Do answers with an error, never with a panic, and leaves the document alone
func c09Invalid(r *rand.Rand, start map[string]any) Case {
	d := anyToContainer(start)
	var fail []string
	p := toPath([]string{"a"})
	objs := map[string]*patch.OpObj{
		"nil operation object":         nil,
		"operation without a path":     {Op: patch.OpAdd, Value: dom.LeafNode(1)},
		"unknown operation name":       {Op: patch.Op("merge"), Path: p, Value: dom.LeafNode(1)},
		"empty operation name":         {Path: p, Value: dom.LeafNode(1)},
		"operation name in upper case": {Op: patch.Op("ADD"), Path: p, Value: dom.LeafNode(1)},
		"move without from":            {Op: patch.OpMove, Path: p},
		"copy without from":            {Op: patch.OpCopy, Path: p},
		"add without value":            {Op: patch.OpAdd, Path: p},
		"replace without value":        {Op: patch.OpReplace, Path: p},
		"test without value":           {Op: patch.OpTest, Path: p},
	}
	for _, name := range sortedKeys(objs) {
		var err error
		if pn := guard(func() { err = patch.Do(objs[name], d) }); pn != "" {
			fail = append(fail, name+": panic: "+pn)
		} else if err == nil {
			fail = append(fail, name+": no error")
		}
		if !reflect.DeepEqual(nodeToAny(d), any(start)) {
			fail = append(fail, name+": the document changed")
			break
		}
	}
	var err error
	if pn := guard(func() { err = patch.Do(&patch.OpObj{Op: patch.OpAdd, Path: p, Value: dom.LeafNode(1)}, nil) }); pn != "" || err == nil {
		fail = append(fail, fmt.Sprintf("a nil target: err=%v panic=%q", err, pn))
	}
	return Case{Kind: "invalid-object", Desc: map[string]any{"start": start}, Fail: fail, Nontrivial: true, Key: fmt.Sprint("invalid", r.Int())}
}

// copy then edit inside the copy: must not show through at the source
func c09CopyEdit(r *rand.Rand, start map[string]any, o genOpts) Case {
	// find a composite source
	var srcs [][]string
	var walk func(v any, p []string)
	walk = func(v any, p []string) {
		switch x := v.(type) {
		case map[string]any:
			if len(p) > 0 {
				srcs = append(srcs, append([]string{}, p...))
			}
			for _, k := range sortedKeys(x) {
				walk(x[k], append(p, k))
			}
		case []any:
			if len(p) > 0 {
				srcs = append(srcs, append([]string{}, p...))
			}
			for i, c := range x {
				walk(c, append(p, strconv.Itoa(i)))
			}
		}
	}
	walk(start, nil)
	if len(srcs) == 0 {
		return c09Run(r, start, nil, func(cur any) rop { return c09GenOp(r, cur, o) }, 3)
	}
	from := srcs[r.Intn(len(srcs))]
	ops := []rop{{Op: "copy", From: from, HasFrom: true, Path: []string{"cp"}}}
	src, _ := rget(start, from)
	switch x := src.(type) {
	case map[string]any:
		ops = append(ops, rop{Op: "add", Path: []string{"cp", "edited"}, Val: 1, HasVal: true})
		for _, k := range sortedKeys(x) {
			ops = append(ops, rop{Op: "remove", Path: []string{"cp", k}})
			break
		}
	case []any:
		ops = append(ops, rop{Op: "add", Path: []string{"cp", "0"}, Val: "ins", HasVal: true})
		if len(x) > 0 {
			ops = append(ops, rop{Op: "replace", Path: []string{"cp", "1"}, Val: "rep", HasVal: true})
			ops = append(ops, rop{Op: "remove", Path: []string{"cp", "0"}})
		}
	}
	// and edit the source afterwards
	ops = append(ops, rop{Op: "test", Path: from, Val: deepCopy(src), HasVal: true})
	c := c09Run(r, start, ops, nil, len(ops))
	c.Kind = "copy-edit"
	c.Nontrivial = true
	return c
}

func init() {
	register(&Prop{
		ID:   "C09",
		Rule: "sequences of 1-12 JSON Patch operations (add, remove, replace, move, copy, test; value/from occasionally missing) on one generated document; pointers aimed at existing locations, sibling keys, index +-1/len/len+1, non-numeric / negative / non-canonical tokens on lists, scalar parents, moves into own descendants and onto themselves (incl. list items of every kind moved or copied beneath themselves, whose right-hand neighbour would slide into their place), all-digit tokens beyond the machine word, moves under a sibling whose name starts with the source's name; after EVERY step: status and whole document vs an RFC 6902 reference interpreter over plain values (Go) and vs the Coq model of patch.Do and the Coq RFC interpreter; a failing step must leave the document as it was; copy-edit sequences (copy a composite, edit inside the copy, test the source). Non-trivial: a failing step after a succeeding one. Distinct by Gallina term. Every second pointer reaches patch.Do as RFC 6901 text parsed by patch.ParsePath; an eighth of the documents use non-ASCII member names, another eighth names with the escaped characters / and ~ (also as the last token). Half of the patched documents are built by the decoder (shared null leaf), some hold lists with several nulls. Lists of 9, 10, 12 and 20 items. A sixth of the cases (from-diff): the modifications of Diff(L, R) — R derived from L, or L from R — each turned into an operation object by xform.DiffMod2PatchOp (Add -> add, Change -> replace, Delete -> remove; pointer = the steps of the path read independently; value = the leaf) and applied to R step by step against the reference and the model (every other such case: the conversion alone against the model's mod2pop); every 64th case: operation objects that are none (nil, no path, unknown / empty / upper-case name, missing from or value, nil target): an error, no panic, document untouched.",
		Corpus: func() []Case {
			d := map[string]any{"a": []any{1, 2}, "s": "x", "c": map[string]any{"k": []any{map[string]any{"v": 1}, 2}}}
			v := func(x any) rop { return rop{Val: x, HasVal: true} }
			mk := func(op string, path []string, extra rop) rop {
				extra.Op, extra.Path = op, path
				return extra
			}
			return []Case{
				c09Run(nil, d, []rop{mk("replace", []string{"s"}, v(5))}, nil, 1), // pinned: panic
				c09Run(nil, d, []rop{mk("add", []string{"s", "b"}, v(1)), mk("add", []string{"a", "5"}, v(1)), mk("add", []string{"a", "x"}, v(1)), mk("add", []string{"a", "-1"}, v(1))}, nil, 4),
				c09Run(nil, d, []rop{mk("copy", []string{"cc"}, rop{From: []string{"c"}, HasFrom: true}), mk("add", []string{"cc", "x"}, v(1)), mk("test", []string{"c"}, v(map[string]any{"k": []any{map[string]any{"v": 1}, 2}}))}, nil, 3),
				c09Run(nil, d, []rop{mk("move", []string{"nope", "x"}, rop{From: []string{"s"}, HasFrom: true}), mk("move", []string{"c", "k", "0", "v", "z"}, rop{From: []string{"c"}, HasFrom: true})}, nil, 2),
				c09Run(nil, d, []rop{mk("move", []string{"c", "k", "1", "x"}, rop{From: []string{"c", "k", "0"}, HasFrom: true})}, nil, 1), // shifted sibling
				c09Run(nil, d, []rop{mk("move", []string{"a", "2"}, rop{From: []string{"a", "0"}, HasFrom: true}), mk("remove", []string{"a", "01"}, rop{})}, nil, 2),
				c09Run(nil, map[string]any{"l": []any{0, 1, 2, 3, 4, 5, 6, 7, 8, 9, 10}}, []rop{mk("replace", []string{"l", "9"}, v("nine")), mk("add", []string{"l", "9"}, v("new")), mk("remove", []string{"l", "10"}, rop{}), mk("test", []string{"l", "9"}, v("new"))}, nil, 4),
				c09Run(nil, map[string]any{"l": []any{0, 1, 2, 3, 4, 5, 6, 7, 8}}, []rop{mk("add", []string{"l", "9"}, v("appended"))}, nil, 1),
				c09Run(nil, map[string]any{"slots": []any{"a", nil, "b", nil, "c"}, "o": map[string]any{}}, []rop{mk("remove", []string{"slots", "1"}, rop{}), mk("move", []string{"o", "x"}, rop{From: []string{"slots", "2"}, HasFrom: true})}, nil, 2),
			}
		},
		Gen: func(r *rand.Rand, tier string, idx int) Case {
			o := defaultOpts()
			o.keys = []string{"a", "b", "c", "k1", "0", "12"}
			if r.Intn(8) == 0 { // member names are arbitrary text
				o.keys = []string{"a", "größe", "名前", "k1", "0", "é"}
			} else if r.Intn(7) == 0 { // ... including the two characters a pointer escapes
				o.keys = []string{"a", "a/b", "m~n", "k1", "~", "/", "x~1y", "v2/"}
			}
			o.maxDepth = 3
			start := genDoc(r, o)
			if r.Intn(8) == 0 { // a list long enough for positions 9, 10 and 19
				n := []int{9, 10, 12, 20}[r.Intn(4)]
				l := make([]any, n)
				for i := range l {
					l[i] = i
				}
				start["long"] = l
			}
			if r.Intn(5) == 0 { // a list with the same value at several positions
				start[o.keys[r.Intn(len(o.keys))]] = []any{[]any{"a", nil, "b", nil, "c"}, []any{nil, 1, nil}, []any{nil, nil}, []any{1, 1, map[string]any{"k": nil}, nil}}[r.Intn(4)]
			}
			if idx%6 == 5 {
				return c09CopyEdit(r, start, o)
			}
			if idx%12 == 9 {
				return c09FromDiffOps(r)
			}
			if idx%6 == 3 {
				return c09FromDiff(r)
			}
			if idx%64 == 7 {
				return c09Invalid(r, start)
			}
			if idx%12 == 10 {
				// move/copy to a location under a SIBLING whose name merely starts with the source's name
				// (pointers are token sequences: "/cfg/web" is not a prefix of "/cfg/web-archive/old")
				src := []string{"web", "hosts1", "a", "0"}[r.Intn(4)]
				sib := src + []string{"-archive", "0", "b", "~x", "/y"}[r.Intn(5)]
				start = map[string]any{"cfg": map[string]any{src: genVal(r, o, 2, false), sib: map[string]any{"keep": 1}}, "s": "x"}
				ops := []rop{{Op: []string{"move", "copy"}[r.Intn(2)], From: []string{"cfg", src}, HasFrom: true,
					Path: []string{"cfg", sib, "old"}}}
				ops = append(ops, rop{Op: "test", Path: []string{"cfg", sib, "keep"}, Val: 1, HasVal: true})
				return c09Run(r, start, ops, nil, len(ops))
			}
			if idx%12 == 4 {
				// move/copy of a list item to a location beneath itself, with every kind of item
				// and of right-hand neighbour (which slides into the vacated index)
				mkItem := func() any {
					switch r.Intn(3) {
					case 0:
						return genScalar(r, o)
					case 1:
						return map[string]any{"x": r.Intn(3)}
					default:
						return []any{r.Intn(3)}
					}
				}
				n := 2 + r.Intn(3)
				items := make([]any, n)
				for i := range items {
					items[i] = mkItem()
				}
				start = map[string]any{"root": map[string]any{"list": items}, "s": "x"}
				i := strconv.Itoa(r.Intn(n))
				from := []string{"root", "list", i}
				// (the "-" token is outside the property: only under move, where the prefix rule decides before it is looked at)
				mc := []string{"move", "copy"}[r.Intn(2)]
				tails := []string{"x", "0", "y", "1", "-"}
				if mc == "copy" {
					tails = tails[:4]
				}
				ops := []rop{{Op: mc, From: from, HasFrom: true,
					Path: append(append([]string{}, from...), tails[r.Intn(len(tails))])}}
				ops = append(ops, rop{Op: "test", Path: []string{"s"}, Val: "x", HasVal: true})
				return c09Run(r, start, ops, nil, len(ops))
			}
			return c09Run(r, start, nil, func(cur any) rop { return c09GenOp(r, cur, o) }, 1+r.Intn(12))
		},
	})
}

var _ = dom.LeafNode

// c09InnerMods drops the modifications whose path starts or ends with the separator (a member with the empty name
// at either end of the path): the property-path reader leaves such a separator out, and no property says what
// operation such a modification is to become. An empty name inside a path stays.
func c09InnerMods(mods []diff.Modification) []diff.Modification {
	out := make([]diff.Modification, 0, len(mods))
	for _, m := range mods {
		if strings.HasPrefix(m.Path, ".") || strings.HasSuffix(m.Path, ".") {
			continue
		}
		out = append(out, m)
	}
	return out
}
