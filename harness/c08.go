package main

import (
	"fmt"
	"math/rand"
	"reflect"
	"strings"

	"github.com/rkosegi/yaml-toolkit/diff"
	"github.com/rkosegi/yaml-toolkit/dom"
	"github.com/rkosegi/yaml-toolkit/patch"
	"github.com/rkosegi/yaml-toolkit/xform"
)

// R derived from L exactly as the property's quantifier says: delete arbitrary keyed subtrees,
// add arbitrary new keyed subtrees, replace arbitrary lists by arbitrary other lists (every list
// item containing at least one scalar); positions defined by both sides agree.
func c08Derive(r *rand.Rand, l map[string]any, o genOpts, fresh []string) map[string]any {
	out := map[string]any{}
	for _, k := range sortedKeys(l) {
		if r.Intn(5) == 0 {
			continue // delete keyed subtree
		}
		out[k] = c08DeriveVal(r, l[k], o, fresh)
	}
	for i, n := 0, r.Intn(3); i < n; i++ {
		k := fresh[r.Intn(len(fresh))]
		if _, ok := l[k]; ok {
			continue
		}
		out[k] = c08GenVal(r, o, 1)
	}
	return out
}

func c08DeriveVal(r *rand.Rand, v any, o genOpts, fresh []string) any {
	switch x := v.(type) {
	case map[string]any:
		return c08Derive(r, x, o, fresh)
	case []any:
		if len(x) == 2 && reflect.DeepEqual(x[0], 9007199254740993) && r.Intn(2) == 0 {
			return []any{9007199254740992, map[string]any{"id": 9223372036854775806}}
		}
		switch r.Intn(5) {
		case 0, 1:
			return c08GenList(r, o, 1)
		case 2: // same length, every composite item grown: a key more in containers, an item more in lists
			return c08Grow(r, x, o).([]any)
		case 3: // same length, same shape, some scalars (or kinds) inside the records differ
			return c08Tweak(r, x, o).([]any)
		}
		return deepCopy(x)
	default:
		return v
	}
}

// values in which every list item contains at least one scalar, no empty containers in lists
func c08Grow(r *rand.Rand, v any, o genOpts) any {
	switch x := v.(type) {
	case map[string]any:
		m := map[string]any{}
		for k, c := range x {
			m[k] = c08Grow(r, c, o)
		}
		m["extra"+fmt.Sprint(r.Intn(3))] = genScalar(r, o)
		return m
	case []any:
		l := make([]any, 0, len(x)+1)
		for _, c := range x {
			l = append(l, c08Grow(r, c, o))
		}
		if r.Intn(2) == 0 && len(x) > 0 {
			// keep the length where the list is itself an item's list; grow nested ones
			return l
		}
		return l
	default:
		return v
	}
}

// the same shape with other scalars: lists may differ arbitrarily between L and R, also only in a leaf
func c08Tweak(r *rand.Rand, v any, o genOpts) any {
	switch x := v.(type) {
	case map[string]any:
		m := map[string]any{}
		for k, c := range x {
			m[k] = c08Tweak(r, c, o)
		}
		return m
	case []any:
		l := make([]any, 0, len(x))
		for _, c := range x {
			l = append(l, c08Tweak(r, c, o))
		}
		return l
	default:
		switch r.Intn(3) {
		case 0:
			return v
		case 1:
			return map[string]any{"sub": genScalar(r, o)}
		}
		return genScalar(r, o)
	}
}

func c08GenVal(r *rand.Rand, o genOpts, depth int) any {
	if depth >= 3 {
		return genScalar(r, o)
	}
	switch r.Intn(5) {
	case 0:
		m := map[string]any{}
		for i, n := 0, 1+r.Intn(2); i < n; i++ {
			m[o.keys[r.Intn(len(o.keys))]] = c08GenVal(r, o, depth+1)
		}
		return m
	case 1:
		return c08GenList(r, o, depth)
	default:
		return genScalar(r, o)
	}
}

func c08GenList(r *rand.Rand, o genOpts, depth int) []any {
	n := 1 + r.Intn(3)
	if r.Intn(12) == 0 {
		n = 11 + r.Intn(3) // more than ten items: a[10] sorts before a[2]
	}
	l := make([]any, 0, n)
	for i := 0; i < n; i++ {
		l = append(l, c08GenVal(r, o, depth+1))
	}
	return l
}

func c08GenDoc(r *rand.Rand, o genOpts) map[string]any {
	m := map[string]any{}
	for i, n := 0, 1+r.Intn(4); i < n; i++ {
		m[o.keys[r.Intn(len(o.keys))]] = c08GenVal(r, o, 1)
	}
	if r.Intn(8) == 0 { // integers beyond 2^53 inside a list: neighbours collapse when widened to float64
		m[o.keys[r.Intn(len(o.keys))]] = []any{9007199254740993, map[string]any{"id": 9223372036854775807}}
	}
	if r.Intn(6) == 0 { // an empty list under a key (as a keyed value it is within the domain)
		m[o.keys[r.Intn(len(o.keys))]] = []any{}
	}
	if r.Intn(6) == 0 {
		m[o.keys[r.Intn(len(o.keys))]] = map[string]any{"e": []any{}, "f": []any{map[string]any{"p": 1}, map[string]any{"p": 2, "q": []any{1}}}}
	}
	if r.Intn(5) == 0 { // empty mappings reachable through mappings: part of the document although they have no leaves
		m[o.keys[r.Intn(len(o.keys))]] = []any{map[string]any{}, map[string]any{"sel": map[string]any{}}, map[string]any{"m": map[string]any{"n": map[string]any{}}, "v": 1}}[r.Intn(3)]
	}
	if r.Intn(8) == 0 { // records in lists nested three deep
		m[o.keys[r.Intn(len(o.keys))]] = []any{[]any{[]any{map[string]any{"name": "n000"}}, []any{map[string]any{"name": "n010"}, map[string]any{"name": "n011", "v": 1}}}, []any{[]any{map[string]any{"name": "n100"}}}}
	}
	if o.pointerRoute && r.Intn(5) == 0 { // a member with the empty name in the middle of a path
		m[o.keys[r.Intn(len(o.keys))]] = []any{
			map[string]any{"": map[string]any{"p": 1, "h": "x"}, "q": 2, "p": 3},
			map[string]any{"srv": map[string]any{"": map[string]any{"port": 1}, "port": 2}},
			[]any{map[string]any{"": map[string]any{"a": 1}, "a": 2}},
		}[r.Intn(3)]
	}
	if !o.pointerRoute && r.Intn(6) == 0 { // a member with the empty name below the root, next to named ones and inside a record of a list
		m[o.keys[r.Intn(len(o.keys))]] = []any{
			map[string]any{"": "default", "name": "n1", "port": 80},
			map[string]any{"": map[string]any{"p": 1}, "q": 2},
			[]any{map[string]any{"": 1, "a": 2}, map[string]any{"b": 3}},
			map[string]any{"": 1},
		}[r.Intn(4)]
	}
	if !o.pointerRoute && r.Intn(6) == 0 { // numbers of sized and unsigned Go kinds, as documents built in code carry them
		m[o.keys[r.Intn(len(o.keys))]] = []any{
			map[string]any{"i64": int64(5), "u8": uint8(7), "l": []any{int32(3), uint16(9)}},
			map[string]any{"big": uint64(18446744073709551615), "half": uint64(1) << 63, "f32": float32(1.5)},
			[]any{int64(-4), map[string]any{"n": int8(-8), "u": uint(6)}},
		}[r.Intn(3)]
	}
	if r.Intn(6) == 0 { // a list of records, the shape lists of a manifest have
		n := 1 + r.Intn(3)
		recs := make([]any, n)
		for i := range recs {
			recs[i] = map[string]any{"name": fmt.Sprint("n", i), "port": 80 + i, "be": map[string]any{"p": i}}
		}
		m[o.keys[r.Intn(len(o.keys))]] = recs
	}
	return m
}

func c08ApplyDiff(l, rr map[string]any) Case {
	L, R := anyToContainer(l), anyToContainer(rr)
	var fail []string
	var mods []diff.Modification
	// (the flattened view of R is looked at before the modifications are applied: it is recomputed afterwards)
	if pn := guard(func() {
		mods = *diff.Diff(L, R)
		_ = R.Flatten()
		_ = R.Search(dom.SearchEqual(1))
		diff.Apply(R, mods)
	}); pn != "" {
		return Case{Kind: "applydiff", Desc: map[string]any{"l": l, "r": rr, "panic": pn}, Fail: []string{"panic in Apply(Diff): " + pn}, Nontrivial: true}
	}
	fl, rawL := flatPlain(L)
	fr, rawR := flatPlain(R)
	if !reflect.DeepEqual(fl, fr) {
		fail = append(fail, "Flatten(Apply(R, Diff(L,R))) != Flatten(L)")
	} else {
		for k, lv := range rawL { // the very values, kind included
			if !reflect.DeepEqual(lv.Value(), rawR[k].Value()) {
				fail = append(fail, fmt.Sprintf("after Apply(R, Diff(L,R)) the leaf %q holds %T(%v), L holds %T(%v)", k, rawR[k].Value(), rawR[k].Value(), lv.Value(), lv.Value()))
			}
		}
	}
	got := nodeToAny(R)
	// the same modifications as JSON patch operations give the same document (xform link)
	kinds := map[diff.ModificationType]bool{}
	for _, m := range mods {
		kinds[m.Type] = true
	}
	return Case{Kind: "applydiff", Desc: map[string]any{"l": l, "r": rr, "mods": modsDesc(mods), "result": got},
		Coq: "CApplyDiff " + gNode(l) + " " + gNode(rr) + " " + gNode(got), Fail: fail, Nontrivial: len(kinds) >= 2}
}

func c08ApplyMods(d map[string]any, mods []diff.Modification, kind string) Case {
	D := anyToContainer(d)
	var fail []string
	if pn := guard(func() { diff.Apply(D, mods) }); pn != "" {
		return Case{Kind: kind, Desc: map[string]any{"d": d, "mods": modsDesc(mods), "panic": pn}, Fail: []string{"panic in Apply: " + pn}, Nontrivial: true}
	}
	got := nodeToAny(D)
	if len(mods) == 0 && !reflect.DeepEqual(got, nodeToAny(anyToContainer(d))) {
		fail = append(fail, "Apply(d, []) changed d")
	}
	if len(mods) == 1 && mods[0].Type != diff.ModDelete {
		n := D.Lookup(mods[0].Path)
		if n == nil || !n.IsLeaf() || !reflect.DeepEqual(normScalar(n.(dom.Leaf).Value()), normScalar(mods[0].Value)) {
			fail = append(fail, "after a single Add/Change at p, Lookup(p) is not that value")
		}
	}
	return Case{Kind: kind, Desc: map[string]any{"d": d, "mods": modsDesc(mods), "result": got},
		Coq: "CApply " + gNode(d) + " " + gList(mods, gMod) + " " + gNode(got), Fail: fail, Nontrivial: len(mods) > 0}
}

func c08DeleteAbsent(r *rand.Rand, d map[string]any) Case {
	D := anyToContainer(d)
	p := genPathStr(r)
	for i := 0; i < 20 && D.Lookup(p) != nil; i++ {
		p = genPathStr(r) + ".zz"
	}
	// an absent path that is the spelling of a present one with a stray dot (no member is named by the empty string)
	if flat := D.Flatten(); len(flat) > 0 && r.Intn(3) == 0 {
		q := sortedKeys(flat)[r.Intn(len(flat))]
		switch r.Intn(3) {
		case 0:
			q = q + "."
		case 1:
			q = "." + q
		default:
			if i := strings.Index(q, "."); i >= 0 {
				q = q[:i] + "." + q[i:]
			} else {
				q = q + "."
			}
		}
		p = q
	}
	c := c08ApplyMods(d, []diff.Modification{{Type: diff.ModDelete, Path: p}}, "delete-absent")
	if len(c.Fail) == 0 {
		D2 := anyToContainer(d)
		diff.Apply(D2, []diff.Modification{{Type: diff.ModDelete, Path: p}})
		if !reflect.DeepEqual(nodeToAny(D2), nodeToAny(anyToContainer(d))) {
			c.Fail = append(c.Fail, "Apply(d, [Delete p]) with p absent changed d")
		}
	}
	return c
}

// Diff -> patch operations -> patch.Do must give the same document as Apply
func c08ViaPatch(l, rr map[string]any) Case {
	L, R, R2 := anyToContainer(l), anyToContainer(rr), anyToContainer(rr)
	var fail []string
	pn := guard(func() {
		mods := *diff.Diff(L, R)
		diff.Apply(R, mods)
		for _, m := range mods {
			if strings.HasPrefix(m.Path, ".") || strings.HasSuffix(m.Path, ".") {
				// a path that starts or ends with the separator (a member with the empty name at either end) is
				// read without it on the property-path route: the two routes are only compared elsewhere
				fail = nil
				R2 = nil
				return
			}
			op := xform.DiffMod2PatchOp(m)
			if err := patch.Do(op, R2); err != nil {
				// RFC 6902 add needs an existing parent: only compare when every op applies
				fail = nil
				R2 = nil
				return
			}
		}
	})
	if pn != "" {
		fail = append(fail, "panic: "+pn)
	}
	if R2 != nil && pn == "" {
		f1, _ := flatPlain(R)
		f2, _ := flatPlain(R2)
		if !reflect.DeepEqual(f1, f2) {
			fail = append(fail, "diff->patch ops applied with patch.Do differ from diff.Apply")
		}
	}
	return Case{Kind: "via-patch", Desc: map[string]any{"l": l, "r": rr, "all_ops_applied": R2 != nil}, Fail: fail, Nontrivial: R2 != nil}
}

func init() {
	register(&Prop{
		ID:   "C08",
		Rule: "kinds: applydiff (L generated with every list item containing a scalar; R derived from L by deleting keyed subtrees, adding new keyed subtrees under fresh keys and replacing lists by other lists, incl. lists of more than ten items so that a[10] sorts before a[2]; Flatten(Apply(R,Diff(L,R))) == Flatten(L) on the Go side, whole resulting document vs the Coq model), apply-one (single Add/Change at a flatten-style path then Lookup), apply-nil, delete-absent, via-patch (xform.DiffMod2PatchOp + patch.Do). Non-trivial: diff has >= 2 modification kinds. Distinct by Gallina term. Documents also hold empty mappings reachable through mappings and lists of records; R may differ from L in a single leaf inside a record of an equally long list. Records in lists nested three deep; single Adds at paths with index chains of three and four. Flatten() and Search() of R are called before Apply. Documents hold members with the empty name below the root (in mappings and in records of lists) and numbers of sized and unsigned Go kinds; after Apply every leaf is compared with L's value and kind.",
		Corpus: func() []Case {
			return []Case{
				c08ApplyDiff(map[string]any{"a": []any{map[string]any{"x": 1, "y": 2}}}, map[string]any{"a": []any{map[string]any{"z": 1}}}), // pinned-tree defect
				c08ApplyDiff(map[string]any{"a": []any{[]any{1, 2}, []any{3}}}, map[string]any{"a": []any{5}}),
				c08ApplyMods(map[string]any{"a": 1}, nil, "apply-nil"),
				c08ApplyMods(map[string]any{"a": map[string]any{"b": map[string]any{"c": map[string]any{}}}, "x": 1, "sel": map[string]any{}}, nil, "apply-nil"),
				c08ApplyDiff(map[string]any{"ports": []any{map[string]any{"port": 80, "name": "http"}}}, map[string]any{"ports": []any{map[string]any{"port": 8080, "name": "http"}}}),
				c08ApplyMods(map[string]any{}, []diff.Modification{{Type: diff.ModAdd, Path: "a.b[1][0].c", Value: 7}}, "apply-one"),
				c08ApplyMods(map[string]any{}, []diff.Modification{{Type: diff.ModAdd, Path: "cube[1][2][3].name", Value: "x"}}, "apply-one"),
				c08ApplyMods(map[string]any{"t": []any{[]any{[]any{[]any{map[string]any{"k": 1}}}}}}, []diff.Modification{{Type: diff.ModChange, Path: "t[0][1][2][0].name", Value: "y"}}, "apply-one"),
			}
		},
		Gen: func(r *rand.Rand, tier string, idx int) Case {
			o := defaultOpts()
			o.keys = []string{"a", "b", "c", "k1", "x-y"}
			if r.Intn(6) == 0 { // member names are not format strings
				o.keys = []string{"a", "cpu%", "%d", "50%off", "k1"}
			}
			fresh := []string{"n1", "n2", "0", "zz"}
			l := c08GenDoc(r, o)
			switch idx % 8 {
			case 5:
				p := genPathStr(r)
				if q, ok := existingPath(r, l, false); ok && r.Intn(2) == 0 {
					p = q
				}
				t := diff.ModAdd
				if r.Intn(2) == 0 {
					t = diff.ModChange
				}
				outOfDomain = false
				paddAt(deepCopy(l).(map[string]any), parsePPath(p), 1)
				if outOfDomain {
					return c08ApplyMods(l, nil, "apply-nil")
				}
				return c08ApplyMods(l, []diff.Modification{{Type: t, Path: p, Value: genScalar(r, o)}}, "apply-one")
			case 6:
				return c08DeleteAbsent(r, l)
			case 7:
				return c08ViaPatch(l, c08Derive(r, l, o, fresh))
			default:
				return c08ApplyDiff(l, c08Derive(r, l, o, fresh))
			}
		},
	})
}

var _ = fmt.Sprint
