package main

import (
	"fmt"
	"math"
	"math/rand"
	"reflect"
	"regexp"
	"sort"
	"strings"

	"github.com/rkosegi/yaml-toolkit/dom"
	"github.com/rkosegi/yaml-toolkit/pipeline"
	"gopkg.in/yaml.v3"
)

// ---- reflection: a configured action as a Model.CloneTbl.value
func gValue(v reflect.Value) string {
	switch v.Kind() {
	case reflect.String:
		return "(VStr " + gStr(v.String()) + ")"
	case reflect.Bool:
		return "(VAtom " + gStr(fmt.Sprint(v.Bool())) + ")"
	case reflect.Int, reflect.Int64, reflect.Int32:
		return "(VAtom " + gStr(fmt.Sprint(v.Int())) + ")"
	case reflect.Ptr:
		if v.IsNil() {
			return "(VOpt None)"
		}
		if v.Type() == reflect.TypeOf(&regexp.Regexp{}) {
			return "(VOpt (Some (VAtom " + gStr("re:"+v.Interface().(*regexp.Regexp).String()) + ")))"
		}
		if v.Type() == reflect.TypeOf(&pipeline.AnyVal{}) {
			return "(VOpt (Some (VAtom " + gStr("any:"+fmt.Sprint(nodeToAny(v.Interface().(*pipeline.AnyVal).Value()))) + ")))"
		}
		return "(VOpt (Some " + gValue(v.Elem()) + "))"
	case reflect.Slice:
		var parts []string
		for i := 0; i < v.Len(); i++ {
			parts = append(parts, gValue(v.Index(i)))
		}
		return "(VList [" + strings.Join(parts, "; ") + "])"
	case reflect.Map:
		if v.Type().Elem().Kind() == reflect.Struct { // ChildActions: name -> ActionSpec
			keys := v.MapKeys()
			sort.Slice(keys, func(i, j int) bool { return keys[i].String() < keys[j].String() })
			var parts []string
			for _, k := range keys {
				parts = append(parts, "("+gStr(k.String())+", "+gValue(v.MapIndex(k))+")")
			}
			return "(VRec " + gStr(v.Type().Name()) + " [" + strings.Join(parts, "; ") + "])"
		}
		// plain data maps are copied by reference; nil and empty are identified
		if v.Len() == 0 {
			return "(VAtom \"map[]\")"
		}
		return "(VAtom " + gStr(fmt.Sprint(v.Interface())) + ")"
	case reflect.Struct:
		var parts []string
		t := v.Type()
		for i := 0; i < t.NumField(); i++ {
			f := v.Field(i)
			parts = append(parts, "("+gStr(t.Field(i).Name)+", "+gValue(f)+")")
		}
		return "(VRec " + gStr(t.Name()) + " [" + strings.Join(parts, "; ") + "])"
	case reflect.Interface:
		if v.IsNil() {
			return "(VAtom \"nil\")"
		}
		return gValue(v.Elem())
	}
	return "(VAtom " + gStr("kind:"+v.Kind().String()) + ")"
}

// ---- population of one field with a value of its kind
type popCtx struct {
	r     *rand.Rand
	tmpl  bool // strings hold "{{ .x }}"
	depth int
}

func (p popCtx) str() string {
	if p.tmpl {
		if p.r.Intn(3) == 0 { // plain text with closing braces of its own in front of the action (a JSON payload)
			return "{\"m\":{\"l\":{\"a\":1}},\"n\":{{ .x }}"
		}
		return "{{ .x }}"
	}
	return []string{"plain", "a.b", "v-1", "text with { brace", "", "false", "{\"a\":{\"b\":1}}",
		"./conf//app.yaml", "dir/./sub/../x.json", "trailing/"}[p.r.Intn(10)]
}

// a value-or-reference, in either of its two YAML forms (the reference form sets unexported state)
func (p popCtx) valOrRef() *pipeline.ValOrRef {
	var v pipeline.ValOrRef
	src := "immediate-" + p.str()
	if p.r.Intn(2) == 0 {
		src = "{ref: cfg.items}"
		if p.tmpl {
			src = "{ref: \"{{ .x }}\"}"
		}
	} else if p.tmpl {
		src = "\"{{ .x }}\""
	}
	if err := yaml.Unmarshal([]byte(src), &v); err != nil {
		return &pipeline.ValOrRef{Val: p.str()}
	}
	return &v
}

func (p popCtx) actionSpec() pipeline.ActionSpec {
	as := pipeline.ActionSpec{}
	as.Name = "inner"
	as.Order = 3 + p.r.Intn(4)
	// a guard is copied as it is and evaluated when the action runs — not when it is cloned: guards
	// that happen to be false (or not evaluable) against the data at clone time are guards like any other
	w := []string{"true", "false", "{{ eq .x \"later\" }}", "{{ .missing }}"}[p.r.Intn(4)]
	as.When = &w
	as.Operations.Log = &pipeline.LogOp{Message: p.str()}
	if p.depth < 2 && p.r.Intn(2) == 0 {
		q := p
		q.depth++
		c := q.actionSpec()
		c.Order = 7
		c2 := q.actionSpec()
		c2.Order = -1
		as.Children = pipeline.ChildActions{"c1": c, "c2": c2}
	}
	if p.r.Intn(2) == 0 {
		s := pipeline.SetStrategyReplace
		as.Operations.Set = &pipeline.SetOp{Data: map[string]any{"k": "v"}, Path: p.str(), Strategy: &s}
	}
	return as
}

func (p popCtx) fill(f reflect.Value) bool {
	switch f.Kind() {
	case reflect.String:
		f.SetString(p.str())
		if f.Type().Name() != "string" && !p.tmpl { // string-kinded enums: a valid-looking constant
			f.SetString([]string{"yaml", "text", "add", "binary"}[p.r.Intn(4)])
		}
	case reflect.Bool:
		f.SetBool(true)
	case reflect.Int:
		f.SetInt(int64(1 + p.r.Intn(5)))
	case reflect.Map:
		if f.Type() == reflect.TypeOf(pipeline.ChildActions{}) {
			f.Set(reflect.ValueOf(pipeline.ChildActions{"s1": p.actionSpec()}))
		} else if f.Type().Elem().Kind() == reflect.Interface {
			f.Set(reflect.ValueOf(map[string]interface{}{"a": p.str(), "n": map[string]interface{}{"b": 1}}))
		} else {
			return false
		}
	case reflect.Struct:
		if f.Type() == reflect.TypeOf(pipeline.ActionSpec{}) {
			f.Set(reflect.ValueOf(p.actionSpec()))
		} else if f.Type() == reflect.TypeOf(pipeline.ActionMeta{}) {
			w := "true"
			f.Set(reflect.ValueOf(pipeline.ActionMeta{Name: "named", Order: 5, When: &w}))
		} else if f.Type() == reflect.TypeOf(pipeline.OpSpec{}) {
			f.Set(reflect.ValueOf(pipeline.OpSpec{Log: &pipeline.LogOp{Message: p.str()}, Abort: &pipeline.AbortOp{Message: p.str()}}))
		} else {
			return false
		}
	case reflect.Ptr:
		switch f.Type() {
		case reflect.TypeOf(&regexp.Regexp{}):
			f.Set(reflect.ValueOf(regexp.MustCompile("^A.*")))
		case reflect.TypeOf(&pipeline.AnyVal{}):
			var av pipeline.AnyVal
			_ = yaml.Unmarshal([]byte("{a: [1, x]}"), &av)
			f.Set(reflect.ValueOf(&av))
		case reflect.TypeOf(&pipeline.ValOrRef{}):
			f.Set(reflect.ValueOf(p.valOrRef()))
		case reflect.TypeOf(&pipeline.ValOrRefSlice{}):
			s := pipeline.ValOrRefSlice{p.valOrRef(), &pipeline.ValOrRef{Val: "second"}, p.valOrRef()}
			f.Set(reflect.ValueOf(&s))
		default:
			n := reflect.New(f.Type().Elem())
			if !p.fillAny(n.Elem()) {
				return false
			}
			f.Set(n)
		}
	case reflect.Slice:
		switch f.Type().Elem().Kind() {
		case reflect.String:
			f.Set(reflect.ValueOf([]string{p.str(), "two"}))
		case reflect.Int:
			f.Set(reflect.ValueOf([]int{0, 3}))
		default:
			return false
		}
	default:
		return false
	}
	return true
}

func (p popCtx) fillAny(v reflect.Value) bool {
	if v.Kind() == reflect.Struct && v.Type() != reflect.TypeOf(pipeline.ActionSpec{}) && v.Type() != reflect.TypeOf(pipeline.OpSpec{}) {
		ok := false
		for i := 0; i < v.NumField(); i++ {
			if v.Type().Field(i).IsExported() && p.fill(v.Field(i)) {
				ok = true
			}
		}
		return ok
	}
	return p.fill(v)
}

// deep equality with nil and empty maps/slices identified: compare the printed value models
type cloneProbe struct {
	run func(ctx pipeline.ActionContext)
}

func (c *cloneProbe) String() string                                       { return "probe" }
func (c *cloneProbe) Do(ctx pipeline.ActionContext) error                  { c.run(ctx); return nil }
func (c *cloneProbe) CloneWith(ctx pipeline.ActionContext) pipeline.Action { return c }

func withCtx(f func(ctx pipeline.ActionContext)) {
	d := anyToContainer(map[string]any{"x": "X"})
	_ = pipeline.New(pipeline.WithData(d)).Execute(&cloneProbe{run: f})
}

// every operation type reachable from OpSpec (by reflection, so future types are included),
// plus ActionSpec, OpSpec, ChildActions
func c15Types() []reflect.Type {
	var ts []reflect.Type
	ot := reflect.TypeOf(pipeline.OpSpec{})
	for i := 0; i < ot.NumField(); i++ {
		ts = append(ts, ot.Field(i).Type.Elem())
	}
	return append(ts, reflect.TypeOf(pipeline.ActionSpec{}), reflect.TypeOf(pipeline.OpSpec{}), reflect.TypeOf(pipeline.ChildActions{}))
}

// build one action value of type t with the chosen fields populated; returns an Action
func c15Build(r *rand.Rand, t reflect.Type, fieldIdx int, tmpl bool) (pipeline.Action, string) {
	p := popCtx{r: r, tmpl: tmpl}
	switch t {
	case reflect.TypeOf(pipeline.ChildActions{}):
		return pipeline.ChildActions{"a": p.actionSpec(), "b": p.actionSpec()}, "*"
	}
	n := reflect.New(t)
	desc := "all"
	if fieldIdx >= 0 {
		f := t.Field(fieldIdx)
		desc = f.Name
		if !f.IsExported() || !p.fill(n.Elem().Field(fieldIdx)) {
			return nil, desc
		}
	} else {
		for i := 0; i < t.NumField(); i++ {
			if t.Field(i).IsExported() {
				p.fill(n.Elem().Field(i))
			}
		}
	}
	if t == reflect.TypeOf(pipeline.ActionSpec{}) || t == reflect.TypeOf(pipeline.OpSpec{}) {
		return n.Elem().Interface().(pipeline.Action), desc
	}
	return n.Interface().(pipeline.Action), desc
}

var c15AddrRe = regexp.MustCompile(`0x[0-9a-f]{6,}`)

func c15Clone(r *rand.Rand, t reflect.Type, fieldIdx int, tmpl bool) Case {
	act, fdesc := c15Build(r, t, fieldIdx, tmpl)
	if act == nil {
		return Case{Kind: "skipped"}
	}
	before := gValue(reflect.ValueOf(act))
	var after, origAfter, descFail string
	var fail []string
	pn := ""
	withCtx(func(ctx pipeline.ActionContext) {
		pn = guard(func() {
			cl := act.CloneWith(ctx)
			after = gValue(reflect.ValueOf(cl))
			origAfter = gValue(reflect.ValueOf(act))
			// what a listener prints of an action is its String(): a structurally equal clone describes itself in the same
			// words (addresses of pointers, if any are printed, are masked)
			if !tmpl && after == before {
				// (names of child actions are listed in map order: the words of the description are compared as a multiset)
				mask := func(s string) string {
					ws := strings.FieldsFunc(c15AddrRe.ReplaceAllString(s, "0xADDR"), func(c rune) bool { return c == ',' || c == ' ' || c == '[' || c == ']' || c == '=' })
					sort.Strings(ws)
					return strings.Join(ws, " ")
				}
				if so, sc := mask(act.String()), mask(cl.String()); so != sc {
					descFail = fmt.Sprintf("the clone describes itself as %q, the original as %q", sc, so)
				}
			}
		})
	})
	if pn != "" {
		return Case{Kind: "clone", Desc: map[string]any{"type": t.Name(), "field": fdesc, "panic": pn}, Fail: []string{"panic in CloneWith: " + pn}, Nontrivial: true}
	}
	if origAfter != before {
		fail = append(fail, "CloneWith changed the original")
	}
	if descFail != "" {
		fail = append(fail, descFail)
	}
	if !tmpl && after != before {
		fail = append(fail, fmt.Sprintf("clone of %s with template-free field %s is not structurally equal to the original", t.Name(), fdesc))
	}
	kind := "clone"
	if tmpl {
		kind = "clone-template"
	}
	return Case{Kind: kind, Desc: map[string]any{"type": t.Name(), "field": fdesc, "templated": tmpl, "original": before, "clone": after},
		Coq: "CCloneValue " + before + " " + after, Fail: fail,
		Nontrivial: strings.Contains(before, "VOpt (Some") || strings.Contains(before, "VList [(") || strings.Contains(before, "VRec \"ActionSpec\""),
		Key:        kind + t.Name() + fdesc + before}
}

// executing the clone has the same effect on the data and produces the same log as the original
// a call operation with templated arguments, cloned twice against changing data, each clone executed: every clone
// renders the arguments it was configured with against the data of ITS time, and the configured operation is untouched
func c15CallClones(r *rand.Rand) Case {
	var fail []string
	args := func() map[string]any {
		return map[string]any{"v": "{{ .x }}", "n": map[string]any{"w": "<{{ .x }}>", "plain": "p"}, "k": 7}
	}
	pn := guard(func() {
		d := anyToContainer(map[string]any{"x": "X"})
		ex := pipeline.New(pipeline.WithData(d))
		callee := pipeline.ActionSpec{}
		callee.Operations.Template = &pipeline.TemplateOp{Template: "{{ .args.v }}/{{ .args.n.w }}/{{ .args.n.plain }}/{{ .args.k }}", Path: "got"}
		if err := ex.Execute(&pipeline.DefineOp{Name: "f", Action: callee}); err != nil {
			fail = append(fail, "define failed: "+err.Error())
			return
		}
		call := &pipeline.CallOp{Name: "f", Args: args()}
		for round, x := range []string{"X", "Y", "Z"}[:2+r.Intn(2)] {
			d.AddValue("x", dom.LeafNode(x))
			var clone pipeline.Action
			_ = ex.Execute(&cloneProbe{run: func(ctx pipeline.ActionContext) { clone = call.CloneWith(ctx) }})
			if err := ex.Execute(clone); err != nil {
				fail = append(fail, fmt.Sprintf("round %d: executing the clone failed: %v", round, err))
				return
			}
			if got, want := fmt.Sprint(nodeToAny(d).(map[string]any)["got"]), x+"/<"+x+">/p/7"; got != want {
				fail = append(fail, fmt.Sprintf("round %d: the callee of the clone saw %q, expected %q", round, got, want))
			}
			if !reflect.DeepEqual(call.Args, args()) {
				fail = append(fail, fmt.Sprintf("round %d: after a clone was executed the configured operation holds %v", round, call.Args))
				return
			}
		}
	})
	if pn != "" {
		fail = append(fail, "panic: "+pn)
	}
	return Case{Kind: "exec-equivalence", Desc: map[string]any{"op": "call cloned against changing data"}, Fail: fail, Nontrivial: true, Key: fmt.Sprint("callclones", r.Int())}
}

// operations that carry a nested action (define, forEach, loop): the clone's nested action is a clone too — its templated
// text fields hold the rendered text, the original's hold the template, and an edit of the clone's nested operations or steps
// is not an edit of the original's
func c15NestedClones(r *rand.Rand) Case {
	var fail []string
	mkSpec := func() pipeline.ActionSpec {
		a := pipeline.ActionSpec{}
		a.Operations.Log = &pipeline.LogOp{Message: "m={{ .x }}"}
		inner := pipeline.ActionSpec{}
		inner.Operations.Log = &pipeline.LogOp{Message: "inner={{ .x }}"}
		a.Children = pipeline.ChildActions{"step": inner}
		return a
	}
	kind := r.Intn(3)
	var orig pipeline.Action
	var nested func(a pipeline.Action) *pipeline.ActionSpec
	switch kind {
	case 0:
		orig = &pipeline.DefineOp{Name: "f", Action: mkSpec()}
		nested = func(a pipeline.Action) *pipeline.ActionSpec { return &a.(*pipeline.DefineOp).Action }
	case 1:
		v := "it"
		orig = &pipeline.ForEachOp{Item: &pipeline.ValOrRefSlice{&pipeline.ValOrRef{Val: "p"}}, Variable: &v, Action: mkSpec()}
		nested = func(a pipeline.Action) *pipeline.ActionSpec { return &a.(*pipeline.ForEachOp).Action }
	default:
		orig = &pipeline.LoopOp{Test: "false", Action: mkSpec()}
		nested = func(a pipeline.Action) *pipeline.ActionSpec { return &a.(*pipeline.LoopOp).Action }
	}
	name := []string{"define", "forEach", "loop"}[kind]
	pn := guard(func() {
		d := anyToContainer(map[string]any{"x": "X"})
		ex := pipeline.New(pipeline.WithData(d))
		var clone pipeline.Action
		_ = ex.Execute(&cloneProbe{run: func(ctx pipeline.ActionContext) { clone = orig.CloneWith(ctx) }})
		cn, on := nested(clone), nested(orig)
		if cn.Operations.Log == nil || cn.Operations.Log.Message != "m=X" || cn.Children["step"].Operations.Log == nil || cn.Children["step"].Operations.Log.Message != "inner=X" {
			fail = append(fail, "the nested action of a cloned "+name+" operation does not hold the rendered text of its templated fields")
		}
		if on.Operations.Log.Message != "m={{ .x }}" || on.Children["step"].Operations.Log.Message != "inner={{ .x }}" {
			fail = append(fail, "cloning a "+name+" operation rendered the ORIGINAL's nested action")
		}
		if cn.Operations.Log != nil {
			cn.Operations.Log.Message = "edited in the clone"
		}
		if cn.Children != nil {
			cn.Children["added-to-the-clone"] = pipeline.ActionSpec{}
			delete(cn.Children, "step")
		}
		if on.Operations.Log.Message != "m={{ .x }}" || len(on.Children) != 1 || on.Children["step"].Operations.Log == nil {
			fail = append(fail, "an edit of the clone's nested action shows in the original "+name+" operation (shared operation objects or steps map)")
		}
	})
	if pn != "" {
		fail = append(fail, "panic: "+pn)
	}
	return Case{Kind: "exec-equivalence", Desc: map[string]any{"op": name + " with a nested action, cloned, clone edited"}, Fail: fail, Nontrivial: true, Key: fmt.Sprint("nestedclones", kind, r.Int())}
}

func c15Exec(r *rand.Rand) Case {
	if r.Intn(6) == 0 {
		return c15CallClones(r)
	}
	if r.Intn(6) == 0 {
		return c15NestedClones(r)
	}
	p := popCtx{r: r}
	var mk func() pipeline.Action
	name := ""
	switch r.Intn(5) {
	case 0:
		name = "set"
		s := []pipeline.SetStrategy{pipeline.SetStrategyReplace, pipeline.SetStrategyMerge}[r.Intn(2)]
		path := []string{"", "a", "a.b"}[r.Intn(3)]
		mk = func() pipeline.Action {
			return &pipeline.SetOp{Data: map[string]any{"k": map[string]any{"n": 1}}, Path: path, Strategy: &s}
		}
	case 1:
		name = "template"
		y := []pipeline.ParseTextAs{pipeline.ParseTextAsYaml, pipeline.ParseTextAsNone}[r.Intn(2)]
		tr := r.Intn(2) == 0
		mk = func() pipeline.Action {
			return &pipeline.TemplateOp{Template: " [1, {{ .x }}] ", Path: "out", ParseAs: &y, Trim: &tr}
		}
	case 2:
		name = "log"
		m := p.str()
		mk = func() pipeline.Action { return &pipeline.LogOp{Message: m} }
	case 3:
		name = "forEach"
		v := "it"
		y := pipeline.ParseTextAsYaml
		mk = func() pipeline.Action {
			body := pipeline.ActionSpec{}
			body.Operations.Template = &pipeline.TemplateOp{Template: "[{{ .it }}, 2]", Path: "res", ParseAs: &y}
			body.Operations.Log = &pipeline.LogOp{Message: "item"}
			return &pipeline.ForEachOp{Item: &pipeline.ValOrRefSlice{&pipeline.ValOrRef{Val: "p"}, &pipeline.ValOrRef{Val: "q"}}, Variable: &v, Action: body}
		}
	default:
		name = "nested-forEach"
		v, w := "outer", "inner"
		mk = func() pipeline.Action {
			in := pipeline.ActionSpec{}
			in.Operations.Log = &pipeline.LogOp{Message: "inner body"}
			yy := pipeline.ParseTextAsYaml
			in.Operations.Template = &pipeline.TemplateOp{Template: "[{{ .outer }}, {{ .inner }}]", Path: "pair", ParseAs: &yy}
			inner := &pipeline.ForEachOp{Item: &pipeline.ValOrRefSlice{&pipeline.ValOrRef{Val: "1"}, &pipeline.ValOrRef{Val: "2"}}, Variable: &w, Action: in}
			body := pipeline.ActionSpec{}
			body.Operations.ForEach = inner
			return &pipeline.ForEachOp{Item: &pipeline.ValOrRefSlice{&pipeline.ValOrRef{Val: "a"}, &pipeline.ValOrRef{Val: "b"}}, Variable: &v, Action: body}
		}
	}
	run := func(clone bool) (any, []string, string) {
		l := &evListener{}
		d := anyToContainer(map[string]any{"x": "X", "a": map[string]any{"b": map[string]any{"old": 1}}})
		ex := pipeline.New(pipeline.WithData(d), pipeline.WithListener(l))
		act := mk()
		var err error
		pn := guard(func() {
			if clone {
				_ = ex.Execute(&cloneProbe{run: func(ctx pipeline.ActionContext) { act = act.CloneWith(ctx) }})
			}
			err = ex.Execute(act)
		})
		var logs []string
		for _, e := range l.evs {
			if e.Kind == "L" {
				logs = append(logs, e.Label)
			}
		}
		return nodeToAny(d), logs, fmt.Sprint(pn, err)
	}
	d1, l1, e1 := run(false)
	d2, l2, e2 := run(true)
	var fail []string
	if !reflect.DeepEqual(d1, d2) {
		fail = append(fail, "executing the clone of a "+name+" operation leaves different data than executing the original")
	}
	if !reflect.DeepEqual(l1, l2) {
		fail = append(fail, "executing the clone of a "+name+" operation produces different log output")
	}
	if e1 != e2 {
		fail = append(fail, "original and clone differ in outcome: "+e1+" vs "+e2)
	}
	return Case{Kind: "exec-equivalence", Desc: map[string]any{"op": name, "data": d1, "logs": l1}, Fail: fail, Nontrivial: true, Key: name + fmt.Sprint(d1, l1)}
}

func init() {
	types := c15Types()
	type job struct {
		t    reflect.Type
		f    int
		tmpl bool
	}
	var jobs []job
	for _, t := range types {
		if t.Kind() == reflect.Struct {
			for i := 0; i < t.NumField(); i++ {
				jobs = append(jobs, job{t, i, false}, job{t, i, true})
			}
		}
		jobs = append(jobs, job{t, -1, false}, job{t, -1, true})
	}
	register(&Prop{
		ID:   "C15",
		Rule: "every operation type reachable from OpSpec by reflection + ActionSpec, OpSpec, ChildActions; for each type: every exported field populated alone and all fields together, with template-free values by kind (strings, string-kinded enums, pointers, slices, maps, nested ActionSpec to depth 2 with children, ValOrRef, ValOrRefSlice, AnyVal decoded from YAML, regexp) and with the template '{{ .x }}' in every string; the configured action and its CloneWith(ctx) are converted to value models by reflection (nil and empty identified) and compared with clone_v over the table the translator regenerated from source; Go side: template-free clone structurally equal, original untouched; exec-equivalence: set / template(parseAs) / log / forEach / nested forEach executed from the original and from the clone on equal data give equal data and logs. Non-trivial: value has a pointer, slice of records or nested action spec. Distinct by (type, field, value). Nested action specs carry guards that are true, false, false against the clone-time data, or not evaluable; templated strings may have '}}' in their plain part.",
		Gen: func(r *rand.Rand, tier string, idx int) Case {
			if idx < len(jobs) {
				j := jobs[idx]
				return c15Clone(r, j.t, j.f, j.tmpl)
			}
			if idx%16 == 5 {
				return c15NumberData(r)
			}
			if idx%3 == 0 {
				return c15Exec(r)
			}
			t := types[r.Intn(len(types))]
			return c15Clone(r, t, -1, r.Intn(2) == 0)
		},
	})
}

var _ = dom.LeafNode

// numbers in the context's data: a clone's rendered text fields print them the way the template engine prints the
// value the data holds — a float stays a float (Go side only)
func c15NumberData(r *rand.Rand) Case {
	nums := []struct {
		v    any
		text string
	}{
		{5e6, "5e+06"}, {1.5e6, "1.5e+06"}, {1e19, "1e+19"}, {3.0, "3"}, {2.5, "2.5"}, {-4e7, "-4e+07"}, {7, "7"}, {9007199254740993, "9007199254740993"},
		{math.Inf(1), "+Inf"}, {1e6, "1e+06"}, {999999.0, "999999"}, {int64(5000000), "5000000"},
	}
	a, b := nums[r.Intn(len(nums))], nums[r.Intn(len(nums))]
	d := anyToContainer(map[string]any{"n": a.v, "cfg": map[string]any{"l": []any{b.v, "s"}}})
	tmpl := "n={{ .n }} l0={{ index .cfg.l 0 }}"
	want := "n=" + a.text + " l0=" + b.text
	path := "out"
	ops := []pipeline.Action{
		&pipeline.LogOp{Message: tmpl},
		&pipeline.TemplateOp{Template: "t", Path: tmpl},
		&pipeline.ExportOp{File: &pipeline.ValOrRef{Val: tmpl}, Format: pipeline.OutputFormatYaml},
		&pipeline.ImportOp{File: tmpl, Path: path, Mode: pipeline.ParseFileModeText},
		pipeline.ActionSpec{Operations: pipeline.OpSpec{Log: &pipeline.LogOp{Message: tmpl}}},
	}
	op := ops[r.Intn(len(ops))]
	var fail []string
	var got string
	pn := ""
	_ = pipeline.New(pipeline.WithData(d)).Execute(&cloneProbe{run: func(ctx pipeline.ActionContext) {
		pn = guard(func() {
			switch c := op.CloneWith(ctx).(type) {
			case *pipeline.LogOp:
				got = c.Message
			case *pipeline.TemplateOp:
				got = c.Path
			case *pipeline.ExportOp:
				got = c.File.Val
			case *pipeline.ImportOp:
				got = c.File
			case pipeline.ActionSpec:
				got = c.Operations.Log.Message
			}
		})
	}})
	if pn != "" {
		fail = append(fail, "panic in CloneWith: "+pn)
	} else if got != want {
		fail = append(fail, fmt.Sprintf("clone of %T over data n=%T(%v), l[0]=%T(%v): the templated field reads %q, expected %q", op, a.v, a.v, b.v, b.v, got, want))
	}
	return Case{Kind: "clone-number-data", Desc: map[string]any{"op": fmt.Sprintf("%T", op), "n": fmt.Sprint(a.v), "l0": fmt.Sprint(b.v), "rendered": got}, Fail: fail, Nontrivial: true, Key: fmt.Sprint("cnd", got, fmt.Sprintf("%T", op))}
}
