package main

import (
	"fmt"
	"math/big"
	"math/rand"
	"reflect"
	"strconv"

	"github.com/rkosegi/yaml-toolkit/dom"
	"github.com/rkosegi/yaml-toolkit/patch"
)

var c10Alphabet = []rune{'/', '~', '0', '1', 'a', 'é', '世', ' ', '\n', '\u3000', '\uFFFD', '😀'} // white space is a character like any other

func c10Token(r *rand.Rand) string {
	n := r.Intn(4)
	rs := make([]rune, 0, n)
	for i := 0; i < n; i++ {
		rs = append(rs, c10Alphabet[r.Intn(len(c10Alphabet))])
	}
	return string(rs)
}

func c10Print(toks []string) Case {
	p := make(patch.Path, 0, len(toks))
	rtoks := make([][]rune, 0, len(toks))
	nt := false
	for _, t := range toks {
		p = append(p, patch.PathSegment(t))
		rtoks = append(rtoks, []rune(t))
		for _, c := range t {
			if c == '~' || c == '/' {
				nt = true
			}
		}
	}
	var s string
	var fail []string
	if pn := guard(func() { s = p.String() }); pn != "" {
		fail = append(fail, "panic in Path.String: "+pn)
	}
	// direct oracle: ParsePath(p.String()) == p
	if len(fail) == 0 {
		back, err := patch.ParsePath(s)
		if err != nil || len(back) != len(p) {
			fail = append(fail, "ParsePath(String(p)) != p")
		} else {
			for i := range p {
				if back[i] != p[i] {
					fail = append(fail, "ParsePath(String(p)) != p")
					break
				}
			}
		}
	}
	return Case{Kind: "print", Desc: map[string]any{"tokens": toks, "string": s},
		Coq:  "CPrint " + gList(rtoks, gRunes) + " " + gRunes([]rune(s)),
		Fail: fail, Nontrivial: nt}
}

func c10Parse(s string) Case {
	var p patch.Path
	var err error
	var fail []string
	if pn := guard(func() { p, err = patch.ParsePath(s) }); pn != "" {
		fail = append(fail, "panic in ParsePath: "+pn)
	}
	obs := "None"
	var toks []string
	if err == nil && len(fail) == 0 {
		rt := make([][]rune, 0, len(p))
		for _, t := range p {
			rt = append(rt, []rune(string(t)))
			toks = append(toks, string(t))
		}
		obs = "(Some " + gList(rt, gRunes) + ")"
		// direct oracle on the RFC grammar
		if validPointer(s) && p.String() != s {
			fail = append(fail, "ParsePath(s).String() != s for valid s")
		}
	}
	if len(s) > 0 && s[0] != '/' && err == nil {
		fail = append(fail, "non-empty string not starting with '/' accepted")
	}
	nt := false
	for _, c := range s {
		if c == '~' {
			nt = true
		}
	}
	return Case{Kind: "parse", Desc: map[string]any{"string": s, "tokens": toks, "error": err != nil},
		Coq: "CParse " + gRunes([]rune(s)) + " " + obs, Fail: fail, Nontrivial: nt}
}

func validPointer(s string) bool {
	rs := []rune(s)
	if len(rs) == 0 {
		return true
	}
	if rs[0] != '/' {
		return false
	}
	for i := 1; i < len(rs); i++ {
		if rs[i] == '~' {
			if i+1 >= len(rs) || (rs[i+1] != '0' && rs[i+1] != '1') {
				return false
			}
			i++
		}
	}
	return true
}

// reference RFC 6901 evaluation over plain values
func refEval(toks []string, v any) (any, bool) {
	cur := v
	for _, t := range toks {
		switch x := cur.(type) {
		case map[string]any:
			c, ok := x[t]
			if !ok {
				return nil, false
			}
			cur = c
		case []any:
			i, ok := canonIndex(t)
			if !ok || i >= len(x) {
				return nil, false
			}
			cur = x[i]
		default:
			return nil, false
		}
	}
	return cur, true
}

func canonIndex(t string) (int, bool) {
	if t == "" || (len(t) > 1 && t[0] == '0') {
		return 0, false
	}
	for i := 0; i < len(t); i++ {
		if t[i] < '0' || t[i] > '9' {
			return 0, false
		}
	}
	i, err := strconv.Atoi(t)
	return i, err == nil
}

func c10Eval(doc map[string]any, toks []string) Case {
	c := anyToContainer(doc)
	p := make(patch.Path, 0, len(toks))
	for _, t := range toks {
		p = append(p, patch.PathSegment(t))
	}
	var trail dom.NodeList
	var res dom.Node
	var fail []string
	if pn := guard(func() { trail, res = p.Eval(c) }); pn != "" {
		fail = append(fail, "panic in Path.Eval: "+pn)
		return Case{Kind: "eval", Desc: map[string]any{"doc": doc, "pointer": toks, "panic": pn}, Fail: fail, Nontrivial: true,
			Coq: "CEval " + gStrs(toks) + " " + gNode(doc) + " [] None"}
	}
	tr := make([]any, 0, len(trail))
	for _, n := range trail {
		tr = append(tr, nodeToAny(n))
	}
	var resv any
	if res != nil {
		resv = nodeToAny(res)
	}
	// direct oracles
	rv, rok := refEval(toks, doc)
	if rok != (res != nil) {
		fail = append(fail, "resolution differs from the RFC 6901 reference")
	} else if rok && gNode(rv) != gNode(resv) {
		fail = append(fail, "resolved node differs from the RFC 6901 reference")
	}
	if res != nil && len(toks) > 0 {
		if len(trail) != len(toks) || trail[len(trail)-1] != res {
			fail = append(fail, "last trail element is not the resolved node")
		}
	}
	// evaluation reads the document as it is NOW: after the lists on the way were edited in place (cleared, grown, an item
	// replaced) through their builders, the same pointer is evaluated against the edited tree
	if len(fail) == 0 {
		edited := deepCopy(doc).(map[string]any)
		changed := false
		var cur any = edited
		var curN dom.Node = c
		for i, t := range toks {
			switch x := cur.(type) {
			case map[string]any:
				nx, ok := x[t]
				if !ok {
					cur = nil
				} else {
					cur, curN = nx, curN.(dom.Container).Child(t)
				}
			case []any:
				lb, isLb := curN.(dom.ListBuilder)
				if !isLb || i == 0 {
					cur = nil
					break
				}
				parent := toks[i-1]
				_ = parent
				var nl []any
				switch len(gNode(doc)) % 3 {
				case 0:
					lb.Clear()
					nl = []any{}
				case 1:
					lb.Append(dom.LeafNode("appended"))
					nl = append(append([]any{}, x...), "appended")
				default:
					if len(x) > 0 {
						lb.MustSet(0, dom.LeafNode("replaced"))
						nl = append([]any{"replaced"}, x[1:]...)
					} else {
						nl = x
					}
				}
				// write the new list back into the plain tree
				var back func(v any, ts []string) any
				back = func(v any, ts []string) any {
					if len(ts) == 0 {
						return nl
					}
					switch y := v.(type) {
					case map[string]any:
						y[ts[0]] = back(y[ts[0]], ts[1:])
						return y
					case []any:
						if j, ok := canonIndex(ts[0]); ok && j < len(y) {
							y[j] = back(y[j], ts[1:])
						}
						return y
					}
					return v
				}
				edited = back(edited, toks[:i]).(map[string]any)
				changed = true
				cur = nil
			default:
				cur = nil
			}
			if cur == nil {
				break
			}
		}
		if changed {
			var res2 dom.Node
			if pn := guard(func() { _, res2 = p.Eval(c) }); pn != "" {
				fail = append(fail, "panic in Path.Eval after an in-place edit of a list on the way: "+pn)
			} else {
				rv2, rok2 := refEval(toks, edited)
				if rok2 != (res2 != nil) || (rok2 && gNode(rv2) != gNode(nodeToAny(res2))) {
					fail = append(fail, fmt.Sprintf("after an in-place edit of the first list on the way (now %s) the pointer does not resolve as in the edited tree", gNode(edited)))
				}
			}
		}
	}
	return Case{Kind: "eval", Desc: map[string]any{"doc": doc, "pointer": toks, "resolved": res != nil, "result": resv},
		Coq:  "CEval " + gStrs(toks) + " " + gNode(doc) + " " + gList(tr, gNode) + " " + gOptNode(resv, res != nil),
		Fail: fail, Nontrivial: len(toks) >= 2}
}

// IsNumeric is exactly "canonical array index that fits the machine word"
func c10IsNumeric(t string) Case {
	var n int
	var ok bool
	var fail []string
	if pn := guard(func() { n, ok = patch.PathSegment(t).IsNumeric() }); pn != "" {
		fail = append(fail, "panic in IsNumeric: "+pn)
	}
	wi, wok := canonIndex(t)
	if ok != wok || (ok && n != wi) {
		fail = append(fail, fmt.Sprintf("PathSegment(%q).IsNumeric() = (%d,%v), expected (%d,%v)", t, n, ok, wi, wok))
	}
	return Case{Kind: "isnumeric", Desc: map[string]any{"token": t, "n": n, "ok": ok}, Fail: fail, Nontrivial: ok, Key: "isnum" + t}
}

// parsing is a function of the string: what a caller does to an earlier result cannot matter
func c10ParseTwice(s string) Case {
	var fail []string
	if pn := guard(func() {
		p1, e1 := patch.ParsePath(s)
		if e1 != nil {
			return
		}
		want := append([]string{}, segStrings(p1)...)
		for i := range p1 {
			p1[i] = patch.PathSegment("scribbled")
		}
		_ = append(p1.Parent(), "sibling")
		p2, e2 := patch.ParsePath(s)
		if e2 != nil || !reflect.DeepEqual(append([]string{}, segStrings(p2)...), want) {
			fail = append(fail, fmt.Sprintf("ParsePath(%q) after the caller changed an earlier result: %v, expected %v", s, segStrings(p2), want))
		}
		if e2 == nil && p2.String() != s && len(want) > 0 {
			// (only canonical spellings round-trip; this string came from String())
			fail = append(fail, "second parse does not print back")
		}
	}); pn != "" {
		fail = append(fail, "panic: "+pn)
	}
	return Case{Kind: "parse-twice", Desc: map[string]any{"s": s}, Fail: fail, Nontrivial: true, Key: "twice" + s}
}

func segStrings(p patch.Path) []string {
	out := make([]string, len(p))
	for i, s := range p {
		out[i] = string(s)
	}
	return out
}

func c10Parent(toks []string) Case {
	p := make(patch.Path, 0, len(toks))
	for _, t := range toks {
		p = append(p, patch.PathSegment(t))
	}
	par := p.Parent()
	ps := make([]string, 0, len(par))
	for _, t := range par {
		ps = append(ps, string(t))
	}
	last := string(p.LastSegment())
	return Case{Kind: "parent", Desc: map[string]any{"tokens": toks, "parent": ps, "last": last},
		Coq: "CParent " + gStrs(toks) + " " + gStrs(ps) + " " + gStr(last), Nontrivial: len(toks) >= 2}
}

// pointer tokens aimed at a document: existing members/indices, neighbours, junk
func c10PointerFor(r *rand.Rand, doc any) []string {
	var toks []string
	cur := doc
	for depth := 0; depth < 6; depth++ {
		if r.Intn(8) == 0 {
			break
		}
		switch x := cur.(type) {
		case map[string]any:
			ks := sortedKeys(x)
			if len(ks) > 0 && r.Intn(6) != 0 {
				k := ks[r.Intn(len(ks))]
				if l, isList := x[k].([]any); isList && r.Intn(4) == 0 {
					// a reference token names a member as it is spelled: "k[0]" is a member called k[0] (absent here), not item 0 of k
					toks = append(toks, k+"["+strconv.Itoa(r.Intn(len(l)+2))+"]")
					cur = nil
					break
				}
				if sub, ok := x[k].(map[string]any); ok && len(sub) > 0 && r.Intn(5) == 0 {
					// the dotted spelling of a nested member is a member name of its own (usually absent)
					k = k + "." + sortedKeys(sub)[r.Intn(len(sub))]
				}
				toks = append(toks, k)
				cur = x[k]
			} else {
				toks = append(toks, []string{"nope", "0", "", "a"}[r.Intn(4)])
				cur = nil
			}
		case []any:
			switch r.Intn(8) {
			case 0:
				toks = append(toks, []string{"x", "-1", "01", "+1", "", "1a", "-"}[r.Intn(7)])
				cur = nil
			case 1:
				toks = append(toks, strconv.Itoa(len(x)+r.Intn(2)))
				cur = nil
			case 2, 3: // all-digit tokens beyond the machine word: never an element, never a panic
				var t string
				switch r.Intn(6) {
				case 0, 1, 2: // 2^64 + k wraps to the existing index k in 64-bit arithmetic
					z := new(big.Int).Lsh(big.NewInt(1), 64)
					t = z.Add(z, big.NewInt(int64(r.Intn(len(x)+1)))).String()
				case 3:
					t = "9223372036854775808" // 2^63 wraps negative
				case 4:
					t = []string{"9223372036854775807", "1000000000000000000", "99999999999999999999999"}[r.Intn(3)]
				default: // k * 2^64 + j
					z := new(big.Int).Lsh(big.NewInt(int64(2+r.Intn(5))), 64)
					t = z.Add(z, big.NewInt(int64(r.Intn(len(x)+1)))).String()
				}
				toks = append(toks, t)
				cur = nil
			default:
				if len(x) == 0 {
					toks = append(toks, "0")
					cur = nil
				} else {
					i := r.Intn(len(x))
					toks = append(toks, strconv.Itoa(i))
					cur = x[i]
				}
			}
		default:
			if r.Intn(2) == 0 {
				return toks
			}
			toks = append(toks, []string{"a", "0"}[r.Intn(2)])
			cur = nil
		}
	}
	return toks
}

// all strings over the alphabet {'/', '~', '0', '1', 'a'} by index
func c10EnumString(i int) string {
	alpha := []rune{'/', '~', '0', '1', 'a'}
	// length-lexicographic enumeration
	n := 0
	count := 1
	for i >= count {
		i -= count
		count *= len(alpha)
		n++
	}
	rs := make([]rune, n)
	for k := n - 1; k >= 0; k-- {
		rs[k] = alpha[i%len(alpha)]
		i /= len(alpha)
	}
	return string(rs)
}

func init() {
	register(&Prop{
		ID:   "C10",
		Rule: "kinds: print (random token sequences over {/,~,0,1,a,é,世,empty}), parse (exhaustive strings over {/,~,0,1,a} in length-lex order, then random incl. multi-byte), isnumeric (direct probes of PathSegment.IsNumeric), parse-twice (a parsed path is scribbled on, then the same string parsed again), eval (a 260-item list x one-byte tokens; generated documents x pointers aimed at existing locations, neighbours, non-numeric/negative/non-canonical tokens and all-digit tokens beyond 2^63 and 2^64 (which wrap to existing indexes in machine arithmetic) on lists), parent. Non-trivial: token/string contains '~' or '/', pointer has >= 2 tokens. Distinct by Gallina term. A third of the eval documents use member names with dots, slashes and the empty name; the dotted spelling of a nested member is tried as a member name. White space (blank, newline, U+3000) is part of the alphabet; corpus: strings with leading white space, tokens ending in white space, two escaped tokens in one pointer.",
		Corpus: func() []Case {
			return []Case{
				c10Eval(map[string]any{"a": []any{1, 2}}, []string{"a", "x", "0"}), // skip of non-numeric token
				c10Eval(map[string]any{"a": []any{1, 2}}, []string{"a", "-1"}),     // negative index
				c10Eval(map[string]any{"a": []any{1, 2}}, []string{"a", "01"}),     // non-canonical index
				c10Eval(map[string]any{"a": map[string]any{"b": 1}, "a.b": 2, "": 3}, []string{"a.b"}),
				c10Eval(map[string]any{"a": map[string]any{"b": 1}}, []string{"a.b"}),
				c10Eval(map[string]any{"": map[string]any{"": 3}}, []string{"", ""}),
				c10Print([]string{""}),
				c10Print([]string{}),
				c10Parse("/"),
				c10Parse("~"),
				c10Parse(" /a"),
				c10Parse("\n/a/b"),
				c10Parse(" "),
				c10Parse("/a/b "),
				c10Print([]string{"a", "b "}),
				c10Print([]string{" ", "\u3000"}),
				c10Parse("/a~1b/c~0d"),
				c10Parse("/~0/~0"),
			}
		},
		Gen: func(r *rand.Rand, tier string, idx int) Case {
			if idx%16 == 13 {
				toks := []string{"a", "A", ":", "~", "/", "0", "9", "10", "07", "-", "", "é", "١", "255", "18446744073709551616", "9223372036854775807"}
				return c10IsNumeric(toks[(idx/16)%len(toks)])
			}
			if idx%16 == 9 {
				n := 1 + r.Intn(3)
				toks := make(patch.Path, 0, n)
				for i := 0; i < n; i++ {
					toks = append(toks, patch.PathSegment(c10Token(r)))
				}
				return c10ParseTwice(toks.String())
			}
			if idx%16 == 5 { // a list long enough for a one-byte token read as its character code to land inside
				l := make([]any, 260)
				for i := range l {
					l[i] = i
				}
				doc := map[string]any{"long": l}
				return c10Eval(doc, []string{"long", []string{"a", "A", ":", "~", "/", "é", "z", "Z", "0", "259", "260"}[r.Intn(11)]})
			}
			switch idx % 4 {
			case 0:
				n := r.Intn(4)
				toks := make([]string, 0, n)
				for i := 0; i < n; i++ {
					toks = append(toks, c10Token(r))
				}
				return c10Print(toks)
			case 1:
				// exhaustive part first: idx/4 enumerates strings
				e := idx / 4
				limit := 3906 // all strings up to length 5 over 5 symbols
				if tier != "thorough" {
					limit = 156 // up to length 3
				}
				if e < limit {
					return c10Parse(c10EnumString(e))
				}
				n := r.Intn(8)
				rs := make([]rune, 0, n+1)
				if r.Intn(5) != 0 {
					rs = append(rs, '/')
				}
				for i := 0; i < n; i++ {
					rs = append(rs, c10Alphabet[r.Intn(len(c10Alphabet))])
				}
				return c10Parse(string(rs))
			case 2:
				o := defaultOpts()
				if r.Intn(3) == 0 { // a reference token is a member name taken literally: dots, slashes and the empty name included
					o.keys = []string{"a", "b", "a.b", "", "x.y", "app.kubernetes.io/name", "rev.v1", "x", "-"}
				}
				doc := genDoc(r, o)
				return c10Eval(doc, c10PointerFor(r, doc))
			default:
				n := r.Intn(4)
				toks := make([]string, 0, n)
				for i := 0; i < n; i++ {
					toks = append(toks, c10Token(r))
				}
				return c10Parent(toks)
			}
		},
	})
}
