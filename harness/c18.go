package main

import (
	"bytes"
	"fmt"
	"math/rand"
	"reflect"
	"strings"

	"github.com/rkosegi/yaml-toolkit/analytics"
	"github.com/rkosegi/yaml-toolkit/dom"
	"gopkg.in/yaml.v3"
)

var c18Names = []string{"app", "db", "cache"}
var c18Tags = []string{"prod", "dev", "eu"}

type refCtx struct {
	doc  map[string]any
	tags []string
}

type refDS struct {
	names []string // first-insertion order
	ctx   map[string]*refCtx
}

func containsStr(l []string, s string) bool {
	for _, x := range l {
		if x == s {
			return true
		}
	}
	return false
}

func gOverlayObs(ov dom.OverlayDocument) string {
	names := ov.LayerNames()
	ls := ov.Layers()
	docs := make([]any, 0, len(names))
	for _, n := range names {
		docs = append(docs, nodeToAny(ls[n]))
	}
	return "DObsOverlay " + gStrs(names) + " " + gList(docs, gNode)
}

// set by the generator for histories that are mostly unnamed adds (more than ten generated names)
var c18ManyUnnamed bool

func c18History(r *rand.Rand, n int) Case {
	ds := analytics.NewDocumentSet()
	ref := &refDS{ctx: map[string]*refCtx{}}
	o := defaultOpts()
	o.keys = c03Keys
	o.maxDepth = 2
	o.floats = false
	var fail []string
	var descs, coqs, obs []string
	readded := false
	unnamedSeen := 0
	// tags are compared as whole strings: a third of the histories use tags that contain one another
	c18Tags := c18Tags
	if r.Intn(3) == 0 {
		c18Tags = []string{"prod", "preprod", "pro"}
	} else if r.Intn(4) == 0 { // a tag is a name, not a pattern
		c18Tags = []string{"items[0]", "items0", "[draft"}
	} else if r.Intn(5) == 0 { // ... and the empty string is a tag like any other
		c18Tags = []string{"prod", "", "eu"}
	}
	// the document OBJECT currently stored under a name (a caller may re-register the very object, e.g. to re-tag it)
	objs := map[string]dom.ContainerBuilder{}
	tagPool := append(make([]string, 0, 8), c18Tags...)
	for i := 0; i < n; i++ {
		pn := guard(func() {
			switch r.Intn(10) {
			case 0, 1, 2, 3, 4: // add
				name := c18Names[r.Intn(len(c18Names))]
				if r.Intn(12) == 0 {
					name = "" // the empty string is a name like any other
				}
				doc := genDoc(r, o)
				var tags []string
				for _, t := range c18Tags {
					if r.Intn(3) == 0 {
						tags = append(tags, t)
					}
				}
				if r.Intn(3) == 0 {
					// the caller spreads a prefix of one slice it keeps using (spare capacity behind the prefix): the
					// slice is the caller's and stays as it is
					for i, t := range c18Tags {
						if tagPool[i] != t {
							fail = append(fail, fmt.Sprintf("the slice a caller passed to WithTags(s...) earlier has been written to: %v", tagPool))
							tagPool[i] = t
						}
					}
					tags = tagPool[:r.Intn(len(tagPool)+1)]
				}
				pol := r.Intn(4)
				var opts []analytics.AddLayerOpt
				if len(tags) > 1 && r.Intn(3) == 0 { // the same tags given by two WithTags options
					opts = append(opts, analytics.WithTags(tags[:1]...), analytics.WithTags(tags[1:]...))
				} else if len(tags) > 0 || r.Intn(2) == 0 {
					opts = append(opts, analytics.WithTags(tags...))
				}
				polS := "PNone"
				switch pol {
				case 1:
					opts = append(opts, analytics.MergeTags())
					polS = "PMergeTags"
				case 2:
					opts = append(opts, analytics.MustCreate())
					polS = "PMustCreate"
				}
				// options are a set: any order of the same options must behave the same
				r.Shuffle(len(opts), func(a, b int) { opts[a], opts[b] = opts[b], opts[a] })
				unnamed := r.Intn(6) == 0 || (c18ManyUnnamed && r.Intn(4) != 0)
				via := r.Intn(3)
				var sameObj dom.ContainerBuilder
				if !unnamed && objs[name] != nil && ref.ctx[name] != nil && r.Intn(4) == 0 {
					sameObj = objs[name]
					doc = ref.ctx[name].doc
					via = 3
				}
				if via == 0 && !unnamed && r.Intn(4) == 0 {
					// a reader add that is rejected (undecodable text, longer than any read-ahead) changes nothing,
					// not even for the adds that follow
					junk := "key: [unclosed\n" + strings.Repeat("more: {junk that never closes\n", 40)
					if jerr := ds.AddDocumentFromReader(name, strings.NewReader(junk), dom.DefaultYamlDecoder, opts...); jerr == nil {
						fail = append(fail, "AddDocumentFromReader accepted undecodable text")
					}
				}
				var err error
				if unnamed {
					err = ds.AddUnnamedDocument(anyToContainer(doc), opts...)
					unnamedSeen++
					name = fmt.Sprintf("default__%d", unnamedSeen)
				} else if via == 0 {
					var b bytes.Buffer
					_ = yaml.NewEncoder(&b).Encode(doc)
					err = ds.AddDocumentFromReader(name, &b, dom.DefaultYamlDecoder, opts...)
				} else if sameObj != nil {
					err = ds.AddDocument(name, sameObj, opts...)
				} else {
					cb := anyToContainer(doc)
					err = ds.AddDocument(name, cb, opts...)
					if err == nil && (ref.ctx[name] == nil || pol != 1) {
						objs[name] = cb
					}
				}
				if !unnamed && via == 0 && err == nil && (ref.ctx[name] == nil || pol != 1) {
					delete(objs, name) // stored object came from the reader: not ours
				}
				// reference
				ex := ref.ctx[name]
				wantOK := true
				tags = append([]string{}, tags...) // (the reference keeps its own copy)
				newTags := append([]string{"*"}, tags...)
				switch {
				case ex == nil:
					ref.ctx[name] = &refCtx{doc: doc, tags: newTags}
					ref.names = append(ref.names, name)
				case pol == 2:
					wantOK = false
				case pol == 1:
					readded = true
					for _, t := range ex.tags {
						if !containsStr(newTags, t) {
							newTags = append(newTags, t)
						}
					}
					ref.ctx[name] = &refCtx{doc: ex.doc, tags: newTags}
				default:
					readded = true
					ref.ctx[name] = &refCtx{doc: doc, tags: newTags}
				}
				if wantOK != (err == nil) {
					fail = append(fail, fmt.Sprintf("add %s policy %s: success=%v, expected %v", name, polS, err == nil, wantOK))
				}
				if unnamed {
					descs = append(descs, fmt.Sprintf("AddUnnamedDocument(%v, tags=%v, %s)", doc, tags, polS))
					coqs = append(coqs, "DAddUnnamed "+gNode(doc)+" "+gStrs(tags)+" "+polS)
				} else {
					descs = append(descs, fmt.Sprintf("AddDocument(%s, %v, tags=%v, %s, via=%d)", name, doc, tags, polS, via))
					coqs = append(coqs, "DAdd "+gStr(name)+" "+gNode(doc)+" "+gStrs(tags)+" "+polS)
				}
				obs = append(obs, "DObsOk "+gBool(err == nil))
			case 5, 6: // tagged subset
				var ts []string
				for _, t := range append([]string{"*", "nope"}, c18Tags...) {
					if r.Intn(3) == 0 {
						ts = append(ts, t)
					}
				}
				if len(ts) == 0 && r.Intn(3) != 0 { // an empty request is legal too: it selects nothing
					ts = []string{c18Tags[r.Intn(3)]}
				}
				ov := ds.TaggedSubset(ts...)
				var want []string
				for _, nme := range ref.names {
					for _, t := range ref.ctx[nme].tags {
						if containsStr(ts, t) {
							want = append(want, nme)
							break
						}
					}
				}
				got := ov.LayerNames()
				if !reflect.DeepEqual(append([]string{}, got...), append([]string{}, want...)) && !(len(got) == 0 && len(want) == 0) {
					fail = append(fail, fmt.Sprintf("TaggedSubset(%v).LayerNames() = %v, expected %v", ts, got, want))
				}
				ls := ov.Layers()
				for _, nme := range want {
					if l, ok := ls[nme]; ok && !reflect.DeepEqual(nodeToAny(l), any(ref.ctx[nme].doc)) {
						fail = append(fail, "layer "+nme+" of the tagged subset differs from the document registered under that name")
					}
				}
				descs = append(descs, fmt.Sprintf("TaggedSubset(%v)", ts))
				coqs = append(coqs, "DTagged "+gStrs(ts))
				obs = append(obs, gOverlayObs(ov))
				// a view belongs to whoever asked for it: editing it, also below the top level, is not an edit of the set
				if r.Intn(3) == 0 {
					for _, nme := range want {
						for _, k := range sortedKeys(ref.ctx[nme].doc) {
							if _, isMap := ref.ctx[nme].doc[k].(map[string]any); isMap {
								ov.Put(nme, k+".written-into-the-view", dom.LeafNode("x"))
								break
							}
						}
						ov.Put(nme, "top-written-into-the-view", dom.LeafNode("y"))
					}
					for _, nme := range want {
						if d := ds.NamedDocument(nme); d != nil && !reflect.DeepEqual(nodeToAny(d), any(ref.ctx[nme].doc)) {
							fail = append(fail, "editing a view returned by TaggedSubset changed the document registered as "+nme)
						}
					}
				}
			case 7: // AsOne == TaggedSubset("*")
				ov := ds.AsOne()
				star := ds.TaggedSubset("*")
				if !reflect.DeepEqual(ov.LayerNames(), star.LayerNames()) {
					fail = append(fail, "AsOne() and TaggedSubset('*') have different layer names")
				}
				a, b := ov.Layers(), star.Layers()
				for nme := range a {
					if b[nme] == nil || !reflect.DeepEqual(nodeToAny(a[nme]), nodeToAny(b[nme])) {
						fail = append(fail, "AsOne() and TaggedSubset('*') differ in layer "+nme)
					}
				}
				if !reflect.DeepEqual(append([]string{}, ov.LayerNames()...), append([]string{}, ref.names...)) && len(ref.names) > 0 {
					fail = append(fail, fmt.Sprintf("AsOne().LayerNames() = %v, insertion order = %v", ov.LayerNames(), ref.names))
				}
				descs = append(descs, "AsOne()")
				coqs = append(coqs, "DAsOne")
				obs = append(obs, gOverlayObs(ov))
			default: // NamedDocument
				name := append(append([]string{}, c18Names...), "ghost", "default__1", "")[r.Intn(6)]
				d := ds.NamedDocument(name)
				ex := ref.ctx[name]
				isNil := d == nil || reflect.ValueOf(d).IsNil()
				if (ex == nil) != isNil {
					fail = append(fail, fmt.Sprintf("NamedDocument(%s) nil=%v, expected nil=%v", name, isNil, ex == nil))
				} else if ex != nil && !reflect.DeepEqual(nodeToAny(d), any(ex.doc)) {
					fail = append(fail, "NamedDocument("+name+") is not the document the policy says is served under that name")
				}
				descs = append(descs, "NamedDocument("+name+")")
				coqs = append(coqs, "DNamed "+gStr(name))
				var dv any
				if !isNil {
					dv = nodeToAny(d)
				}
				obs = append(obs, "DObsDoc "+gOptNode(dv, !isNil))
			}
		})
		if pn != "" {
			fail = append(fail, "panic: "+pn)
			break
		}
		if len(fail) > 0 {
			break
		}
	}
	// the set serves the documents that are registered, as they are NOW: an application that edits one of them in place
	// (through NamedDocument) sees the edit in every view asked for afterwards, also when views were asked for before
	if len(fail) == 0 && len(ref.names) > 0 {
		if pn := guard(func() {
			nme := ref.names[r.Intn(len(ref.names))]
			_ = ds.AsOne()
			_ = ds.TaggedSubset("*")
			d := ds.NamedDocument(nme)
			if d == nil || reflect.ValueOf(d).IsNil() {
				return
			}
			d.AddValue("edited-after-the-views-were-taken", dom.LeafNode("x"))
			want := nodeToAny(d)
			for vi, ov := range []dom.OverlayDocument{ds.AsOne(), ds.TaggedSubset("*")} {
				if l := ov.Layers()[nme]; l == nil || !reflect.DeepEqual(nodeToAny(l), want) {
					fail = append(fail, fmt.Sprintf("view %d taken after an in-place edit of the document registered as %q does not show the edit", vi, nme))
				}
			}
		}); pn != "" {
			fail = append(fail, "panic: "+pn)
		}
	}
	return Case{Kind: "docset-history", Desc: map[string]any{"steps": descs},
		Coq:  "CDocSet [" + strings.Join(coqs, "; ") + "] [" + strings.Join(obs, "; ") + "]",
		Fail: fail, Nontrivial: readded}
}

// a reader source of more than a mebibyte is a document like any other: every key is there
func c18BigReader(r *rand.Rand, idx int) Case {
	n := 30000 + r.Intn(5000)
	var sb strings.Builder
	asJSON := r.Intn(3) == 0
	if asJSON {
		sb.WriteString("{")
	}
	for i := 0; i < n; i++ {
		if asJSON {
			if i > 0 {
				sb.WriteString(",")
			}
			fmt.Fprintf(&sb, "\"key%06d\": \"value-%06d-padding-padding\"", i, i)
		} else {
			fmt.Fprintf(&sb, "key%06d: value-%06d-padding-padding\n", i, i)
		}
	}
	if asJSON {
		sb.WriteString("}")
	}
	text := sb.String()
	ds := analytics.NewDocumentSet()
	var fail []string
	var err error
	dec := dom.DefaultYamlDecoder
	if asJSON {
		dec = dom.DefaultJsonDecoder
	}
	if pn := guard(func() { err = ds.AddDocumentFromReader("big", strings.NewReader(text), dec) }); pn != "" {
		fail = append(fail, "panic: "+pn)
	}
	if err != nil {
		fail = append(fail, fmt.Sprintf("a valid %d-byte document was rejected: %v", len(text), err))
	} else if d := ds.NamedDocument("big"); d == nil || reflect.ValueOf(d).IsNil() {
		fail = append(fail, "document missing after a successful reader add")
	} else if m, ok := nodeToAny(d).(map[string]any); !ok || len(m) != n || m[fmt.Sprintf("key%06d", n-1)] != fmt.Sprintf("value-%06d-padding-padding", n-1) {
		fail = append(fail, fmt.Sprintf("a %d-byte source with %d keys was registered with %d keys", len(text), n, len(m)))
	}
	return Case{Kind: "big-reader", Desc: map[string]any{"bytes": len(text), "keys": n, "json": asJSON}, Fail: fail, Nontrivial: true, Key: fmt.Sprint("big", n, asJSON)}
}

func init() {
	register(&Prop{
		ID:   "C18",
		Rule: "histories of 1-25 steps over 3 names (so re-adds occur; now and then the empty string is the name) and 3 tags: AddDocument / AddDocumentFromReader (YAML) / AddUnnamedDocument with options in {none, WithTags, MergeTags, MustCreate}, given in random order (the same tags also split over two WithTags), interleaved with TaggedSubset(ts) (incl. '*', an unknown tag and the empty request), AsOne() (must equal TaggedSubset('*')), NamedDocument(n) (incl. unknown names). After every step the return status / LayerNames + every layer's content / served document vs the Coq model and vs a Go-side plain reference; no query may panic. An eighth of the histories are mostly unnamed adds (more than ten generated names); reader adds are sometimes preceded by a rejected add of undecodable text. An eighth of the cases: the pipeline template function mergeFiles over 1-3 YAML files = their ordered append-merge. Non-trivial: history re-adds a name successfully. Distinct by Gallina term. A third of the histories use tags that contain one another; re-adds sometimes pass the very document object that is stored; every 128th case adds a reader source of more than a mebibyte (YAML or JSON). Tags spread from a prefix of one caller-owned slice with spare capacity; views edited at and below the top level before the set is queried again. An eighth of the cases (docset-batch): 2-6 steps of AddDocumentsFromDirectory (two directories met again and again, 1-4 YAML/JSON files written per step, one in six undecodable, six glob patterns incl. one matching nothing), AddDocumentsFromManifest (ConfigMap data / Secret stringData items as YAML/JSON documents, undecodable items, a missing manifest; the order in which the map of items was walked is read off the new layers), AddPropertiesFromManifest (dotted and indexed item names), all under the four option sets, interleaved with the three queries, against ds_add_files / ds_add_items / props_doc of the model.",
		Gen: func(r *rand.Rand, tier string, idx int) Case {
			if idx%8 == 7 { // the pipeline template function mergeFiles: a document set of files, merged in order
				o := defaultOpts()
				o.keys = c03Keys
				o.maxDepth = 3
				o.floats = false
				var docs []map[string]any
				for i, n := 0, 1+r.Intn(3); i < n; i++ {
					docs = append(docs, genDoc(r, o))
				}
				return c18MergeFiles(r, idx, docs)
			}
			if idx%8 == 1 { // the batch forms: directory, manifest items, manifest as properties
				return c18Batch(r, idx)
			}
			if idx%128 == 5 && idx < 1024 {
				return c18BigReader(r, idx)
			}
			if idx%64 == 10 { // a long-lived set: more than a hundred adds, most of them re-adds of the same few names
				return c18History(r, 180+r.Intn(60))
			}
			if idx%8 == 3 {
				c18ManyUnnamed = true
				defer func() { c18ManyUnnamed = false }()
				return c18History(r, 18+r.Intn(12))
			}
			return c18History(r, 1+r.Intn(25))
		},
	})
}
