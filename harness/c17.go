package main

import (
	"bytes"
	"encoding/base64"
	"encoding/json"
	"fmt"
	"io"
	"math"
	"math/rand"
	"os"
	"path/filepath"
	"reflect"
	"strings"
	"testing/iotest"

	"github.com/rkosegi/yaml-toolkit/dom"
	"github.com/rkosegi/yaml-toolkit/k8s"
	"github.com/rkosegi/yaml-toolkit/utils"
	"gopkg.in/yaml.v3"
)

func gBytes(b []byte) string {
	return gList(b, func(x byte) string { return fmt.Sprintf("%d", x) }) + "%Z"
}

func c17B64(r *rand.Rand) Case {
	n := []int{0, 1, 2, 3, 4, 5, 6, 7, 31, 32, 33, 100}[r.Intn(12)]
	bs := make([]byte, n)
	for i := range bs {
		bs[i] = byte(r.Intn(256))
	}
	enc := base64.StdEncoding.EncodeToString(bs)
	if r.Intn(2) == 0 {
		return Case{Kind: "b64-enc", Desc: map[string]any{"bytes": bs, "enc": enc}, Coq: "CB64Enc " + gBytes(bs) + " " + gBytes([]byte(enc)), Nontrivial: n%3 != 0}
	}
	in := []byte(enc)
	switch r.Intn(4) {
	case 0:
		if len(in) > 0 {
			in = in[:r.Intn(len(in))]
		}
	case 1:
		if len(in) > 0 {
			in[r.Intn(len(in))] = '!'
		}
	case 2:
		if len(in) > 4 {
			in[r.Intn(len(in)-2)] = '='
		}
	}
	dec, err := base64.StdEncoding.DecodeString(string(in))
	obs := "None"
	if err == nil {
		obs = "(Some " + gBytes(dec) + ")"
	}
	return Case{Kind: "b64-dec", Desc: map[string]any{"in": string(in), "ok": err == nil}, Coq: "CB64Dec " + gBytes(in) + " " + obs, Nontrivial: err != nil}
}

var c17Texts = []string{"v", "", "multi\nline\ntext", "trailing\n", "é世 unicode", "  spaced  ", "a: b", "#hash", "true", "null", "- x", "{}", "tab\there", "'q'", "\"dq\"", "x\n\ny\n", "@echo off\r\nset A=1\r\n", "crlf\r\nthen lf\nend", "lone\rcr"}

type c17Doc struct {
	m       map[string]any
	kindOK  bool
	loadOK  bool // expected to load without error
	bk, tk  string
	text    []byte
	hostile bool
}

func c17GenManifest(r *rand.Rand, malformed bool) c17Doc {
	d := c17Doc{m: map[string]any{}, kindOK: true, loadOK: true}
	kind := []string{"Secret", "ConfigMap"}[r.Intn(2)]
	d.m["kind"] = kind
	d.m["apiVersion"] = "v1"
	md := map[string]any{"name": "n" + fmt.Sprint(r.Intn(100)), "namespace": "ns"}
	if r.Intn(2) == 0 {
		md["labels"] = map[string]any{"app": "x", "tier": "y"}
	}
	d.m["metadata"] = md
	if r.Intn(2) == 0 {
		d.m["type"] = "Opaque"
	}
	if r.Intn(3) == 0 {
		d.m["immutable"] = true
	}
	if r.Intn(4) == 0 {
		d.m["extra"] = map[string]any{"list": []any{1, "two", nil}, "n": 5}
	}
	if r.Intn(4) == 0 { // fields outside the data sections are kept as they are, empty mappings and lists included
		d.m["status"] = map[string]any{}
		if r.Intn(2) == 0 {
			d.m["finalizers"] = []any{}
		}
	}
	if kind == "Secret" {
		d.bk, d.tk = "data", "stringData"
	} else {
		d.bk, d.tk = "binaryData", "data"
	}
	if r.Intn(5) != 0 {
		t := map[string]any{}
		for i, n := 0, r.Intn(4); i < n; i++ {
			k := fmt.Sprintf("t%d.txt", r.Intn(6))
			switch r.Intn(6) {
			case 0:
				t[k] = 8080 + r.Intn(3) // numeric-looking text item
			case 1:
				t[k] = r.Intn(2) == 0
			default:
				t[k] = c17Texts[r.Intn(len(c17Texts))]
			}
		}
		if len(t) > 0 || r.Intn(2) == 0 {
			d.m[d.tk] = t
		}
	}
	if r.Intn(5) != 0 {
		b := map[string]any{}
		for i, n := 0, r.Intn(4); i < n; i++ {
			bs := make([]byte, []int{0, 1, 2, 3, 16, 17}[r.Intn(6)])
			for j := range bs {
				bs[j] = byte(r.Intn(256))
			}
			b[fmt.Sprintf("b%d.bin", r.Intn(6))] = base64.StdEncoding.EncodeToString(bs)
		}
		if len(b) > 0 || r.Intn(2) == 0 {
			d.m[d.bk] = b
		}
	}
	if malformed {
		switch r.Intn(6) {
		case 0:
			delete(d.m, "kind")
			d.kindOK, d.loadOK = false, false
		case 1:
			d.m["kind"] = 1
			d.kindOK, d.loadOK = false, false
		case 2:
			d.m["kind"] = "Pod"
			d.kindOK, d.loadOK = false, false
		case 3: // a binary item that is not a string: a number, a null, a list, a map, a bool
			d.m[d.bk] = map[string]any{"bad": []any{1, nil, []any{1}, map[string]any{"x": 1}, true, 1.5}[r.Intn(6)]}
			d.loadOK = false
		case 4:
			d.m[d.bk] = map[string]any{"bad": []string{"!!!not base64", "YQ=", "YQ", "YWJj=", "YQ==YQ==", "=", "Y", "YWI", "YQ=\n"}[r.Intn(9)]} // (also text that ends inside its padding)
			d.loadOK = false
		default:
			d.m[d.bk] = "not a map"
		}
	}
	var b bytes.Buffer
	enc := utils.NewYamlEncoder(&b)
	_ = enc.Encode(d.m)
	d.text = b.Bytes()
	return d
}

// does bare yaml.v3 (configured as the toolkit configures it) round-trip this string?
func yamlRoundTrips(s string) bool {
	var b bytes.Buffer
	if err := utils.NewYamlEncoder(&b).Encode(map[string]any{"k": s}); err != nil {
		return false
	}
	var back map[string]any
	if err := yaml.Unmarshal(b.Bytes(), &back); err != nil {
		return false
	}
	return back["k"] == s
}

func controlDecode(text []byte) (map[string]any, bool) {
	var m map[string]any
	if err := yaml.Unmarshal(text, &m); err != nil {
		return nil, false
	}
	return m, true
}

func gDocKVs(m map[string]any) string {
	return gList(sortedKeys(m), func(k string) string { return "(" + gStr(k) + ", " + gGval(normGeneric(m[k])) + ")" })
}

func itemsOf(m k8s.Manifest) (map[string]string, map[string][]byte) {
	s, b := map[string]string{}, map[string][]byte{}
	for _, k := range m.StringData().List() {
		s[k] = *m.StringData().Get(k)
	}
	for _, k := range m.BinaryData().List() {
		b[k] = append([]byte{}, m.BinaryData().Get(k)...)
	}
	return s, b
}

func gItems(s map[string]string, b map[string][]byte) string {
	return "(" + gList(sortedKeys(s), func(k string) string { return "(" + gStr(k) + ", " + gStr(s[k]) + ")" }) + ", " +
		gList(sortedKeys(b), func(k string) string { return "(" + gStr(k) + ", " + gBytes(b[k]) + ")" }) + ")"
}

func c17Load(r *rand.Rand, malformed bool) Case {
	d := c17GenManifest(r, malformed)
	ctl, ok := controlDecode(d.text)
	if !ok {
		return Case{Kind: "load", Desc: map[string]any{"text": string(d.text)}, Nontrivial: false}
	}
	var m k8s.Manifest
	var err error
	var fail []string
	if pn := guard(func() { m, err = k8s.ManifestFromBytes(d.text) }); pn != "" {
		return Case{Kind: "load", Desc: map[string]any{"text": string(d.text), "panic": pn}, Fail: []string{"panic in ManifestFromBytes: " + pn}, Nontrivial: true,
			Coq: "CLoad " + gDocKVs(ctl) + " None"}
	}
	// the same text through readers that deliver it in small pieces (pipes, network bodies, decompressors do)
	for ri, mk := range []func() io.Reader{
		func() io.Reader { return iotest.HalfReader(bytes.NewReader(d.text)) },
		func() io.Reader { return iotest.OneByteReader(bytes.NewReader(d.text)) },
		func() io.Reader {
			h := len(d.text) / 2
			return io.MultiReader(bytes.NewReader(d.text[:h]), bytes.NewReader(d.text[h:]))
		},
	} {
		var m2 k8s.Manifest
		var err2 error
		if pn := guard(func() { m2, err2 = k8s.ManifestFromReader(mk()) }); pn != "" {
			fail = append(fail, fmt.Sprintf("panic in ManifestFromReader (reader %d): %s", ri, pn))
		} else if (err2 == nil) != (err == nil) {
			fail = append(fail, fmt.Sprintf("ManifestFromReader through a piecewise reader (%d): error=%v, from bytes: error=%v", ri, err2, err))
		} else if err == nil {
			s1, b1 := itemsOf(m)
			s2, b2 := itemsOf(m2)
			if !reflect.DeepEqual(s1, s2) || !reflect.DeepEqual(b1, b2) {
				fail = append(fail, fmt.Sprintf("ManifestFromReader through a piecewise reader (%d) loaded other items than ManifestFromBytes", ri))
			}
		}
	}
	if (err == nil) != d.loadOK {
		fail = append(fail, fmt.Sprintf("ManifestFromBytes error=%v, expected success=%v", err, d.loadOK))
	}
	obs := "None"
	desc := map[string]any{"text": string(d.text), "error": err != nil}
	if err == nil {
		s, b := itemsOf(m)
		obs = "(Some " + gItems(s, b) + ")"
		desc["text_items"], desc["binary_items"] = s, len(b)
	}
	_, hasT := d.m[d.tk]
	_, hasB := d.m[d.bk]
	return Case{Kind: "load", Desc: desc, Coq: "CLoad " + gDocKVs(ctl) + " " + obs, Fail: fail, Nontrivial: hasT && hasB && len(d.m) > 5}
}

func c17Save(r *rand.Rand) Case {
	d := c17GenManifest(r, false)
	ctl, ok := controlDecode(d.text)
	var m k8s.Manifest
	var err error
	if pn := guard(func() { m, err = k8s.ManifestFromBytes(d.text) }); pn != "" || err != nil || !ok {
		return Case{Kind: "save", Desc: map[string]any{"text": string(d.text), "panic": pn}, Fail: []string{"well-formed manifest did not load"}, Nontrivial: true}
	}
	var fail []string
	ws, wb := itemsOf(m)
	// manifests are independent of each other: one of the OTHER kind (and one of the same kind), loaded
	// and written while this one is open, must not change where this one's items go
	if r.Intn(2) == 0 {
		for _, ok := range []string{"Secret", "ConfigMap"} {
			if om, oerr := k8s.ManifestFromBytes([]byte("kind: " + ok + "\napiVersion: v1\nmetadata:\n  name: other\n")); oerr == nil {
				om.StringData().Update("o.txt", "other")
				om.BinaryData().Update("o.bin", []byte{1, 2})
				var ob bytes.Buffer
				_, _ = om.WriteTo(&ob)
			}
		}
	}
	var ops, descs []string
	hostile := false
	for i, n := 0, r.Intn(7); i < n; i++ {
		// renaming an item — read it, store it under the new name, drop the old one — with the very value Get handed out
		if len(wb) > 0 && r.Intn(6) == 0 {
			oldK := sortedKeys(wb)[r.Intn(len(wb))]
			newK := fmt.Sprintf("b%d.bin", r.Intn(6))
			if newK != oldK {
				v := m.BinaryData().Get(oldK)
				m.BinaryData().Update(newK, v)
				m.BinaryData().Remove(oldK)
				payload := append([]byte{}, wb[oldK]...)
				wb[newK] = payload
				delete(wb, oldK)
				ops = append(ops, "MBinUpdate "+gStr(newK)+" "+gBytes(payload), "MBinRemove "+gStr(oldK))
				descs = append(descs, fmt.Sprintf("BinaryData: rename %s -> %s (Update(new, Get(old)); Remove(old))", oldK, newK))
				continue
			}
		}
		if len(ws) > 0 && r.Intn(8) == 0 {
			oldK := sortedKeys(ws)[r.Intn(len(ws))]
			newK := fmt.Sprintf("t%d.txt", r.Intn(6))
			if newK != oldK {
				if vp := m.StringData().Get(oldK); vp != nil {
					m.StringData().Update(newK, *vp)
					m.StringData().Remove(oldK)
					ws[newK] = ws[oldK]
					delete(ws, oldK)
					ops = append(ops, "MStrUpdate "+gStr(newK)+" "+gStr(ws[newK]), "MStrRemove "+gStr(oldK))
					descs = append(descs, fmt.Sprintf("StringData: rename %s -> %s", oldK, newK))
					continue
				}
			}
		}
		switch r.Intn(4) {
		case 0:
			k, v := fmt.Sprintf("t%d.txt", r.Intn(6)), c17Texts[r.Intn(len(c17Texts))]
			if r.Intn(12) == 0 {
				v = []string{"\nleading newline", "\t\nx", "\n"}[r.Intn(3)]
			}
			if r.Intn(6) == 0 { // one item name on both interfaces: they are independent of each other
				k = "shared.key"
			}
			m.StringData().Update(k, v)
			ws[k] = v
			ops = append(ops, "MStrUpdate "+gStr(k)+" "+gStr(v))
			descs = append(descs, fmt.Sprintf("StringData.Update(%s,%q)", k, v))
		case 1:
			k := fmt.Sprintf("t%d.txt", r.Intn(6))
			m.StringData().Remove(k)
			delete(ws, k)
			ops = append(ops, "MStrRemove "+gStr(k))
			descs = append(descs, "StringData.Remove("+k+")")
		case 2:
			k := fmt.Sprintf("b%d.bin", r.Intn(6))
			bs := make([]byte, r.Intn(6))
			if r.Intn(25) == 0 { // an item beyond any small-item fast path, its length not a multiple of 3
				bs = make([]byte, 4097+r.Intn(2))
			}
			for j := range bs {
				bs[j] = byte(r.Intn(256))
			}
			if r.Intn(6) == 0 {
				k = "shared.key"
			}
			m.BinaryData().Update(k, bs)
			wb[k] = bs
			ops = append(ops, "MBinUpdate "+gStr(k)+" "+gBytes(bs))
			descs = append(descs, fmt.Sprintf("BinaryData.Update(%s,%v)", k, bs))
		default:
			k := fmt.Sprintf("b%d.bin", r.Intn(6))
			m.BinaryData().Remove(k)
			delete(wb, k)
			ops = append(ops, "MBinRemove "+gStr(k))
			descs = append(descs, "BinaryData.Remove("+k+")")
		}
	}
	for _, v := range ws {
		if !yamlRoundTrips(v) {
			hostile = true
		}
	}
	gs, gb := itemsOf(m)
	if !reflect.DeepEqual(gs, ws) || !reflect.DeepEqual(gb, wb) {
		fail = append(fail, "facade Get/List differ from the plain maps after the updates")
	}
	// a write that fails part-way (disk full, broken pipe) leaves nothing behind in the manifest object:
	// the retry writes the document once
	if r.Intn(3) == 0 {
		if pn := guard(func() { _, _ = m.WriteTo(&failAfterW{n: r.Intn(40)}) }); pn != "" {
			fail = append(fail, "panic in a WriteTo whose writer fails: "+pn)
		}
	}
	var out bytes.Buffer
	if pn := guard(func() { _, err = m.WriteTo(&out) }); pn != "" || err != nil {
		return Case{Kind: "save", Desc: map[string]any{"text": string(d.text), "ops": descs}, Fail: []string{fmt.Sprintf("WriteTo failed: %v %s", err, pn)}, Nontrivial: true}
	}
	written, wok := controlDecode(out.Bytes())
	m2, err2 := k8s.ManifestFromBytes(out.Bytes())
	if err2 != nil || !wok {
		if hostile {
			fail = append(fail, "written manifest does not reload; yaml.v3-itself-does-not-round-trip one of the text items")
		} else {
			fail = append(fail, fmt.Sprintf("written manifest does not reload: %v", err2))
		}
	} else {
		rs, rb := itemsOf(m2)
		if !reflect.DeepEqual(rs, ws) || !reflect.DeepEqual(rb, wb) {
			if hostile {
				fail = append(fail, "reload differs in a text item; yaml.v3-itself-does-not-round-trip that string")
			} else {
				fail = append(fail, "reload(WriteTo(m)) does not have the same item maps")
			}
		}
		// non-data fields
		for k, v := range ctl {
			if k == d.bk || k == d.tk {
				continue
			}
			if !reflect.DeepEqual(written[k], v) {
				fail = append(fail, "field "+k+" outside the data sections changed on save")
			}
		}
		// sections: text items as text, binary as base64, in the section the kind prescribes
		if sec, ok := written[d.bk].(map[string]any); ok {
			for k, v := range sec {
				if s, isS := v.(string); !isS || s != base64.StdEncoding.EncodeToString(wb[k]) {
					fail = append(fail, "binary item "+k+" is not standard base64 in section "+d.bk)
				}
			}
		} else if len(wb) > 0 {
			fail = append(fail, "binary items are not in section "+d.bk)
		}
	}
	coq := ""
	if wok && !hostile {
		coq = "CSave " + gDocKVs(ctl) + " [" + strings.Join(ops, "; ") + "] " + gGval(normGeneric(written))
	}
	return Case{Kind: "save", Desc: map[string]any{"text": string(d.text), "ops": descs, "written": string(out.Bytes())},
		Coq: coq, Fail: fail, Nontrivial: len(ops) >= 2 && len(ws) > 0 && len(wb) > 0}
}

// embedded documents: open, edit, save, reopen
var (
	c17SharedDec = k8s.DecodeEmbeddedProps()
	c17SharedEnc = k8s.EncodeEmbeddedProps()
)

func c17Embedded(r *rand.Rand, idx int, format int) Case {
	dir := procTmp("c17")
	_ = os.MkdirAll(dir, 0o755)
	file := filepath.Join(dir, fmt.Sprintf("m%d.yaml", idx))
	defer os.Remove(file)
	o := defaultOpts()
	o.keys = c03Keys
	o.maxDepth = 3
	o.floats = false
	o.nulls = false
	init := map[string]any{"kind": "ConfigMap", "apiVersion": "v1", "metadata": map[string]any{"name": "x"},
		"data": map[string]any{"other.txt": "keep me", "second": "also"}}
	item := "doc.emb"
	start := genDoc(r, o)
	var fail []string
	openFn := func() (k8s.Document, error) { return nil, nil }
	switch format {
	case 0:
		var b bytes.Buffer
		_ = dom.DefaultYamlEncoder(&b, start)
		init["data"].(map[string]any)[item] = b.String()
		openFn = func() (k8s.Document, error) { return k8s.YamlDoc(file, item) }
	case 1:
		start["nel"] = "next\u0085line"
		start["del"] = "a\x7fb"
		start["slash"] = "a/b \\ c"
		var b bytes.Buffer
		_ = dom.DefaultJsonEncoder(&b, start)
		init["data"].(map[string]any)[item] = b.String()
		openFn = func() (k8s.Document, error) { return k8s.JsonDoc(file, item) }
	default:
		// properties: every string item of the manifest is a key of the embedded document
		init["data"] = map[string]any{"app.name": "n", "app.port": "80", "db.host": "h",
			"app.rules[0].match": "m0", "app.rules[0].act": "allow", "app.rules[1].match": "m1", "offsets[-1]": "neg", "ports[+1]": "pos"}
		openFn = func() (k8s.Document, error) { return k8s.Properties(file) }
		if r.Intn(2) == 0 { // one decoder/encoder pair serving every manifest this process opens
			openFn = func() (k8s.Document, error) {
				return k8s.NewBuilder().Manifest(file).Decoder(c17SharedDec).Encoder(c17SharedEnc).Open()
			}
		}
	}
	var ib bytes.Buffer
	_ = utils.NewYamlEncoder(&ib).Encode(init)
	if err := os.WriteFile(file, ib.Bytes(), 0o644); err != nil {
		return Case{Kind: "embedded", Desc: "cannot write temp file", Fail: []string{err.Error()}}
	}
	var edits []string
	var want any
	pn := guard(func() {
		doc, err := openFn()
		if err != nil {
			fail = append(fail, "open failed: "+err.Error())
			return
		}
		cb := doc.Document()
		if format == 2 {
			// what was opened is this manifest's items and nothing else (nothing left over from another manifest)
			if got := nodeToAny(cb); !reflect.DeepEqual(got, any(map[string]any{"app": map[string]any{"name": "n", "port": "80",
				"rules": []any{map[string]any{"match": "m0", "act": "allow"}, map[string]any{"match": "m1"}}}, "db": map[string]any{"host": "h"}, "offsets[-1]": "neg", "ports[+1]": "pos"})) {
				fail = append(fail, fmt.Sprintf("the properties document opened from the manifest is not the tree of its items: %v", got))
			}
		}
		// an editing session may save in between: the document handle obtained BEFORE the first Save stays the document — what is
		// edited through it afterwards is what the next Save writes
		if r.Intn(2) == 0 {
			cb.AddValue("first-session", dom.LeafNode("1"))
			edits = append(edits, "AddValue first-session=1; Save")
			if err := doc.Save(); err != nil {
				fail = append(fail, "first Save failed: "+err.Error())
				return
			}
		}
		for i, n := 0, 1+r.Intn(6); i < n; i++ {
			if format == 2 {
				// incl. a leaf replaced by a subtree (app.port.http over app.port) and a subtree by a leaf (db, app)
				k := []string{"app.name", "app.port", "db.host", "db.user", "new.key.deep", "x", "app.port.http", "db", "app", "app.port.https.tls",
					"app.rules[0].match", "app.rules[0].extra", "new.grp.items[0].id"}[r.Intn(13)] // (index 0 only: a null padding item has no spelling in properties text)
				if r.Intn(3) == 0 && !strings.Contains(k, "[") { // (an emptied list item, {} inside a list, has no spelling in properties text)
					cb.RemoveAt(k)
					edits = append(edits, "RemoveAt "+k)
				} else {
					v := c16Vals[r.Intn(len(c16Vals))]
					cb.AddValueAt(k, dom.LeafNode(v))
					edits = append(edits, "AddValueAt "+k+"="+v)
				}
				cb.Walk(dom.CompactFn)
			} else {
				edits = append(edits, randomEdit(r, cb))
			}
		}
		if format == 2 && r.Intn(6) == 0 { // every pair removed: the saved manifest has no pair left
			for k := range cb.Children() {
				cb.Remove(k)
			}
			edits = append(edits, "Remove every top-level key")
		}
		want = nodeToAny(cb)
		if format == 1 && r.Intn(5) == 0 {
			// a document the JSON encoder rejects: Save reports the error and the manifest file is untouched
			before, _ := os.ReadFile(file)
			cb.AddValue("unencodable", dom.LeafNode(math.Inf(1)))
			serr := doc.Save()
			after, _ := os.ReadFile(file)
			if serr == nil {
				fail = append(fail, "Save of a document the encoder rejects returned no error")
			}
			if !bytes.Equal(before, after) {
				fail = append(fail, fmt.Sprintf("a failed Save changed the manifest file (%d bytes before, %d after)", len(before), len(after)))
			}
			cb.Remove("unencodable")
		}
		if err := doc.Save(); err != nil {
			fail = append(fail, "Save failed: "+err.Error())
			return
		}
		re, err := openFn()
		if err != nil {
			fail = append(fail, "reopen failed: "+err.Error())
			return
		}
		got := nodeToAny(re.Document())
		// expectation up to the codec's own normalisation: pass the edited document through the bare codec
		exp := want
		switch format {
		case 0:
			var b bytes.Buffer
			_ = dom.DefaultYamlEncoder(&b, want)
			var back map[string]any
			_ = yaml.Unmarshal(b.Bytes(), &back)
			if back == nil {
				back = map[string]any{}
			}
			exp = normGeneric(back)
		case 1:
			bs, _ := json.Marshal(want)
			var back map[string]any
			_ = json.Unmarshal(bs, &back)
			if back == nil {
				back = map[string]any{}
			}
			exp = normGeneric(back)
		}
		if !reflect.DeepEqual(normGeneric(got), exp) {
			fail = append(fail, fmt.Sprintf("reopened embedded document differs from the edited one (format %d)", format))
		}
		if format != 2 {
			m, err := k8s.ManifestFromFile(file)
			if err != nil {
				fail = append(fail, "manifest does not reload: "+err.Error())
			} else {
				for _, k := range []string{"other.txt", "second"} {
					if v := m.StringData().Get(k); v == nil || *v != init["data"].(map[string]any)[k] {
						fail = append(fail, "another item of the manifest changed: "+k)
					}
				}
			}
		}
	})
	if pn != "" {
		fail = append(fail, "panic: "+pn)
	}
	return Case{Kind: fmt.Sprintf("embedded-%d", format), Desc: map[string]any{"start": start, "edits": edits, "edited": want}, Fail: fail, Nontrivial: len(edits) >= 2,
		Key: fmt.Sprint(format, start, edits)}
}

// NewBuilder().Create: a fresh manifest of either kind, an embedded properties document edited and
// saved into it, reopened
func c17Create(r *rand.Rand, idx int) Case {
	dir := procTmp("c17")
	_ = os.MkdirAll(dir, 0o755)
	file := filepath.Join(dir, fmt.Sprintf("created%d.yaml", idx))
	_ = os.Remove(file)
	defer os.Remove(file)
	kind := []string{"Secret", "ConfigMap"}[r.Intn(2)]
	name := fmt.Sprintf("n%d", r.Intn(50))
	ns := []string{"", "prod", "kube-system"}[r.Intn(3)]
	var opts []k8s.CreateOption
	if ns != "" {
		opts = append(opts, k8s.WithNamespace(ns))
	} else {
		ns = "default"
	}
	var fail []string
	var edits []string
	var want any
	pn := guard(func() {
		doc, err := k8s.NewBuilder().Manifest(file).Decoder(k8s.DecodeEmbeddedProps()).Encoder(k8s.EncodeEmbeddedProps()).Create(kind, name, opts...)
		if err != nil {
			fail = append(fail, "Create failed: "+err.Error())
			return
		}
		cb := doc.Document()
		if len(cb.Children()) != 0 {
			fail = append(fail, "a created manifest's properties document is not empty")
		}
		for i, n := 0, 1+r.Intn(5); i < n; i++ {
			k := []string{"app.name", "app.port", "db.host", "x", "app.port.http"}[r.Intn(5)]
			v := c16Vals[r.Intn(len(c16Vals))]
			cb.AddValueAt(k, dom.LeafNode(v))
			edits = append(edits, k+"="+v)
		}
		want = nodeToAny(cb)
		if err := doc.Save(); err != nil {
			fail = append(fail, "Save failed: "+err.Error())
			return
		}
		re, err := k8s.Properties(file)
		if err != nil {
			fail = append(fail, "reopen failed: "+err.Error())
			return
		}
		if got := nodeToAny(re.Document()); !reflect.DeepEqual(got, want) {
			fail = append(fail, fmt.Sprintf("reopened properties document %v differs from the saved one %v", got, want))
		}
		m, err := k8s.ManifestFromFile(file)
		if err != nil {
			fail = append(fail, "created manifest does not load: "+err.Error())
			return
		}
		raw, _ := os.ReadFile(file)
		var plain map[string]any
		_ = yaml.Unmarshal(raw, &plain)
		md, _ := plain["metadata"].(map[string]any)
		if plain["kind"] != kind || md == nil || md["name"] != name || md["namespace"] != ns {
			fail = append(fail, fmt.Sprintf("created manifest has kind=%v metadata=%v, expected %s %s/%s", plain["kind"], md, kind, ns, name))
		}
		if len(m.BinaryData().List()) != 0 {
			fail = append(fail, "created manifest has binary items")
		}
	})
	if pn != "" {
		fail = append(fail, "panic: "+pn)
	}
	return Case{Kind: "create", Desc: map[string]any{"kind": kind, "name": name, "namespace": ns, "edits": edits, "saved": want}, Fail: fail, Nontrivial: len(edits) >= 2,
		Key: fmt.Sprint("create", kind, name, ns, edits)}
}

// hostile manifests: loading (directly and through the embedded-document openers) returns an error
// or a manifest; it never panics
func c17NoPanic(text string) Case {
	var fail []string
	var err error
	if pn := guard(func() { _, err = k8s.ManifestFromBytes([]byte(text)) }); pn != "" {
		fail = append(fail, "panic in ManifestFromBytes: "+pn)
	}
	dir := procTmp("c17")
	_ = os.MkdirAll(dir, 0o755)
	file := filepath.Join(dir, fmt.Sprintf("hostile-%x.yaml", len(text)*131+int(crc(text))))
	defer os.Remove(file)
	if werr := os.WriteFile(file, []byte(text), 0o644); werr == nil {
		for name, open := range map[string]func() (k8s.Document, error){
			"Properties": func() (k8s.Document, error) { return k8s.Properties(file) },
			"YamlDoc":    func() (k8s.Document, error) { return k8s.YamlDoc(file, "item") },
			"JsonDoc":    func() (k8s.Document, error) { return k8s.JsonDoc(file, "item") },
		} {
			if pn := guard(func() { _, _ = open() }); pn != "" {
				fail = append(fail, "panic in k8s."+name+": "+pn)
			}
		}
	}
	return Case{Kind: "load-hostile", Desc: map[string]any{"text": text, "error": err != nil}, Fail: fail, Nontrivial: true, Key: "nopanic" + text}
}

func crc(s string) uint32 {
	var h uint32 = 2166136261
	for i := 0; i < len(s); i++ {
		h = (h ^ uint32(s[i])) * 16777619
	}
	return h
}

// the recorded finding, exercised on every run
func c17Hostile(v string) Case {
	text := []byte("kind: ConfigMap\napiVersion: v1\nmetadata:\n  name: x\ndata:\n  a.txt: ok\n")
	m, err := k8s.ManifestFromBytes(text)
	if err != nil {
		return Case{Kind: "save", Desc: "fixture does not load", Fail: []string{err.Error()}}
	}
	m.StringData().Update("h.txt", v)
	var out bytes.Buffer
	_, _ = m.WriteTo(&out)
	var fail []string
	m2, err2 := k8s.ManifestFromBytes(out.Bytes())
	if err2 != nil {
		if !yamlRoundTrips(v) {
			fail = append(fail, "written manifest does not reload; yaml.v3-itself-does-not-round-trip one of the text items")
		} else {
			fail = append(fail, "written manifest does not reload: "+err2.Error())
		}
	} else if g := m2.StringData().Get("h.txt"); g == nil || *g != v {
		if !yamlRoundTrips(v) {
			fail = append(fail, "reload differs in a text item; yaml.v3-itself-does-not-round-trip that string")
		} else {
			fail = append(fail, "reload(WriteTo(m)) lost a text item")
		}
	}
	return Case{Kind: "save", Desc: map[string]any{"text_item": v, "written": out.String()}, Fail: fail, Nontrivial: true, Key: "hostile" + v}
}

func init() {
	register(&Prop{
		ID: "C17",
		Corpus: func() []Case {
			cs := []Case{c17Hostile("\nleading newline"), c17Hostile("\t\nx"), c17Hostile("plain\nmulti")}
			// every kind of non-string value in either section of either kind: an error or a manifest, never a panic;
			// the same through the embedded-document openers
			for _, kind := range []string{"Secret", "ConfigMap"} {
				for _, sec := range []string{"data", "stringData", "binaryData"} {
					for _, v := range []string{"~", "null", "", "1", "1.5", "true", "[1, 2]", "{a: 1}", "[]", "{}", "2001-12-14", "!!binary aGk="} {
						cs = append(cs, c17NoPanic("kind: "+kind+"\napiVersion: v1\nmetadata:\n  name: x\n"+sec+":\n  item: "+v+"\n  ok: aGk=\n"))
					}
					cs = append(cs, c17NoPanic("kind: "+kind+"\napiVersion: v1\n"+sec+": ~\n"), c17NoPanic("kind: "+kind+"\n"+sec+": [1]\n"))
				}
			}
			for _, t := range []string{"", "~", "[]", "kind: ~\n", "kind: [Secret]\n", "kind: {a: 1}\n", "- kind: Secret\n", "kind: Secret\nmetadata: 5\n"} {
				cs = append(cs, c17NoPanic(t))
			}
			return cs
		},
		Rule: "kinds: load (Secret/ConfigMap manifests with metadata/extra fields, text items incl. multi-line/unicode/numeric-looking/empty, binary items of 0-17 arbitrary bytes; 1/4 malformed: missing or non-string or unsupported kind, non-string or non-base64 binary value, section that is not a map: error or manifest, never a panic; plus a fixed corpus of 122 hostile manifests — every kind of non-string value in every section of both kinds, non-map sections, odd kinds — through ManifestFromBytes, Properties, YamlDoc and JsonDoc), save (load, with manifests of both kinds loaded and written in between, 0-6 Update/Remove on both facades, WriteTo, control decode + reload: item maps, non-data fields, section placement and base64), embedded-0/1/2 (YAML / JSON / properties document inside a ConfigMap on a temp file: 1-6 edits, Save, reopen, other items untouched), create (NewBuilder().Create of either kind with/without namespace, embedded properties edited, saved, reopened; kind/name/namespace in the written file), b64-enc / b64-dec (Go StdEncoding vs the Coq model on edge lengths and corrupted inputs). Non-trivial: manifest has both sections and extra fields / >= 2 edits. Distinct by Gallina term or (format,start,edits). Text items with CR LF line ends; empty top-level mappings/lists outside the data sections. A WriteTo into a failing writer before the real one; binary items of 4097/4098 bytes; one item name used on both data interfaces. Embedded properties with lists of groups below a group; every pair removed before a Save. Item names with an empty dotted component (a trailing or a doubled dot) keep their spelling through open/edit/Save. Every 150th case: one configured builder opens two manifests, the first document is saved.",
		Gen: func(r *rand.Rand, tier string, idx int) Case {
			if idx%150 == 11 {
				return c17BuilderReuse(r, idx)
			}
			switch idx % 8 {
			case 0:
				return c17B64(r)
			case 1, 2:
				return c17Load(r, idx%16 < 8)
			case 3, 4:
				return c17Save(r)
			case 5:
				if r.Intn(3) == 0 {
					return c17Create(r, idx)
				}
				return c17Embedded(r, idx, 0)
			case 6:
				return c17Embedded(r, idx, 1)
			default:
				if r.Intn(4) == 0 {
					return c17OddItemNames(r, idx)
				}
				return c17Embedded(r, idx, 2)
			}
		},
	})
}

// text items whose names have an empty dotted component that is not the first one (legal Kubernetes data keys): opened as an
// embedded properties document, edited elsewhere, saved — every item is still there under its own name (Go side only)
func c17OddItemNames(r *rand.Rand, idx int) Case {
	dir := procTmp("c17")
	_ = os.MkdirAll(dir, 0o755)
	file := filepath.Join(dir, fmt.Sprintf("odd%d.yaml", idx))
	defer os.Remove(file)
	pool := []string{"logging.level.", "routes..default", "a.b..c.", "plain.key", "x", "srv.port", "tail.."}
	items := map[string]any{}
	for i, n := 0, 2+r.Intn(4); i < n; i++ {
		items[pool[r.Intn(len(pool))]] = c16Vals[r.Intn(len(c16Vals))]
	}
	var ib bytes.Buffer
	_ = utils.NewYamlEncoder(&ib).Encode(map[string]any{"apiVersion": "v1", "kind": "ConfigMap", "metadata": map[string]any{"name": "odd"}, "data": items})
	if err := os.WriteFile(file, ib.Bytes(), 0o644); err != nil {
		return Case{Kind: "embedded-odd-names", Desc: "cannot write temp file", Fail: []string{err.Error()}}
	}
	var fail []string
	edit := r.Intn(3)
	want := map[string]any{}
	for k, v := range items {
		want[k] = v
	}
	pn := guard(func() {
		doc, err := k8s.Properties(file)
		if err != nil {
			fail = append(fail, "open failed: "+err.Error())
			return
		}
		switch edit {
		case 1:
			doc.Document().AddValueAt("added.key", dom.LeafNode("new"))
			want["added.key"] = "new"
		case 2:
			doc.Document().AddValue("top", dom.LeafNode("t"))
			want["top"] = "t"
		}
		if err := doc.Save(); err != nil {
			fail = append(fail, "Save failed: "+err.Error())
			return
		}
		m, err := k8s.ManifestFromFile(file)
		if err != nil {
			fail = append(fail, "manifest does not reload: "+err.Error())
			return
		}
		got := map[string]any{}
		for _, k := range m.StringData().List() {
			if v := m.StringData().Get(k); v != nil {
				got[k] = *v
			}
		}
		if !reflect.DeepEqual(got, want) {
			fail = append(fail, fmt.Sprintf("after open, edit %d and Save the manifest's items are %v, expected %v", edit, got, want))
		}
		re, err := k8s.Properties(file)
		if err != nil {
			fail = append(fail, "reopen failed: "+err.Error())
		} else if fp, _ := flatPlain(re.Document()); !reflect.DeepEqual(fp, want) {
			fail = append(fail, fmt.Sprintf("the reopened properties document has leaves %v, expected %v", fp, want))
		}
	})
	if pn != "" {
		fail = append(fail, "panic: "+pn)
	}
	return Case{Kind: "embedded-odd-names", Desc: map[string]any{"items": items, "edit": edit}, Fail: fail, Nontrivial: len(items) >= 2, Key: fmt.Sprint("odd", items, edit)}
}
