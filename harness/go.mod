module ytcheck

go 1.24.1

require (
	github.com/magiconair/properties v1.8.10
	github.com/rkosegi/yaml-toolkit v0.0.0
	gopkg.in/yaml.v3 v3.0.1
)

require (
	github.com/antchfx/htmlquery v1.3.4 // indirect
	github.com/antchfx/xpath v1.3.3 // indirect
	github.com/go-task/slim-sprig/v3 v3.0.0 // indirect
	github.com/golang/groupcache v0.0.0-20210331224755-41bb18bfe9da // indirect
	github.com/google/go-cmp v0.7.0 // indirect
	golang.org/x/net v0.39.0 // indirect
	golang.org/x/text v0.24.0 // indirect
)

replace github.com/rkosegi/yaml-toolkit => /repo
