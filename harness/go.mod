module ytcheck

go 1.24.1

require (
	github.com/rkosegi/yaml-toolkit v0.0.0
	gopkg.in/yaml.v3 v3.0.1
)

require (
	github.com/google/go-cmp v0.7.0 // indirect
	github.com/magiconair/properties v1.8.10 // indirect
)

replace github.com/rkosegi/yaml-toolkit => /repo
