// ytcheck: runs the implementation (/repo, built with -tags verif) on generated cases and writes
// the inputs together with what was observed as Gallina terms for the Coq-side correspondence.
package main

import (
	"time"
	"encoding/json"
	"flag"
	"fmt"
	"math/rand"
	"os"
	"path/filepath"
	"sort"
	"strings"
)

// Case is one generated input together with what the implementation did on it.
type Case struct {
	Kind       string   `json:"kind"`
	Desc       any      `json:"desc"`           // human-readable inputs and observations
	Coq        string   `json:"-"`              // term of type Check.Cxx.case ("" = Go-side only)
	Fail       []string `json:"fail,omitempty"` // direct-oracle failures found on the Go side
	Nontrivial bool     `json:"nontrivial"`
	Key        string   `json:"-"` // identity for distinct counting (default: Coq term)
}

type Prop struct {
	ID     string
	Rule   string
	Gen    func(r *rand.Rand, tier string, idx int) Case
	Corpus func() []Case // minimised regression cases, always run first
	// Extra runs once per invocation (e.g. repeated-run determinism, fault enumeration); returns
	// failures and a map of counters that goes into the evidence
	Extra func(seed int64, tier string) ([]string, map[string]any)
}

var registry = map[string]*Prop{}

func register(p *Prop) { registry[p.ID] = p }

func caseRng(seed int64, idx int) *rand.Rand {
	return rand.New(rand.NewSource(seed*1000003 + int64(idx)*7919 + 17))
}

func main() {
	prop := flag.String("prop", "", "property id")
	seed := flag.Int64("seed", 1, "seed")
	n := flag.Int("n", 300, "number of generated cases")
	tier := flag.String("tier", "quick", "quick|thorough")
	out := flag.String("out", "", "output directory")
	only := flag.Int("index", -1, "replay: only this case index")
	shard := flag.Int("shard", 400, "cases per coq file")
	flag.Parse()
	p, ok := registry[*prop]
	if !ok {
		fmt.Fprintf(os.Stderr, "unknown property %q\n", *prop)
		os.Exit(2)
	}
	if err := os.MkdirAll(*out, 0o755); err != nil {
		panic(err)
	}
	defer func() {
		if procTmpRoot != "" {
			_ = os.RemoveAll(procTmpRoot)
		}
	}()
	var cases []Case
	if p.Corpus != nil {
		cases = append(cases, p.Corpus()...)
	}
	ncorpus := len(cases)
	for i := 0; i < *n; i++ {
		idx := ncorpus + i
		if *only >= 0 && idx != *only {
			cases = append(cases, Case{Kind: "skipped"})
			continue
		}
		// every case runs under a watchdog: a call of the library that never returns (a lock that is never
		// released, a loop that never ends) is a failing case with this very input as its replay — the
		// generation stops there, later cases would run next to a goroutine that is still stuck
		done := make(chan Case, 1)
		go func(idx int) { done <- p.Gen(caseRng(*seed, idx), *tier, idx) }(idx)
		select {
		case c := <-done:
			cases = append(cases, c)
		case <-time.After(caseTimeout):
			cases = append(cases, Case{Kind: "hang", Desc: map[string]any{"index": idx, "note": "regenerate with -index to see the input"},
				Fail: []string{fmt.Sprintf("the case did not terminate within %v (deadlock or divergence in the library)", caseTimeout)}, Nontrivial: true,
				Key: fmt.Sprint("hang", idx)})
			i = *n
		}
	}
	// write
	jl, err := os.Create(filepath.Join(*out, "cases.jsonl"))
	if err != nil {
		panic(err)
	}
	enc := json.NewEncoder(jl)
	enc.SetEscapeHTML(false)
	distinct := map[string]bool{}
	kinds := map[string]int{}
	gofail := 0
	var coqIdx []int // global indices of cases that have a Coq term
	for i, c := range cases {
		if *only >= 0 && i != *only {
			continue
		}
		if c.Kind == "skipped" {
			continue
		}
		kinds[c.Kind]++
		key := c.Key
		if key == "" {
			key = c.Coq
		}
		if key == "" {
			b, _ := json.Marshal(c.Desc)
			key = string(b)
		}
		if c.Nontrivial {
			distinct[c.Kind+"|"+key] = true
		}
		if len(c.Fail) > 0 {
			gofail++
		}
		_ = enc.Encode(map[string]any{"i": i, "kind": c.Kind, "desc": c.Desc, "fail": c.Fail,
			"nontrivial": c.Nontrivial, "size": len(c.Coq), "has_coq": c.Coq != ""})
		if c.Coq != "" {
			coqIdx = append(coqIdx, i)
		}
	}
	jl.Close()
	// shards
	nshards := 0
	for s := 0; s*(*shard) < len(coqIdx); s++ {
		lo, hi := s*(*shard), (s+1)*(*shard)
		if hi > len(coqIdx) {
			hi = len(coqIdx)
		}
		var sb strings.Builder
		fmt.Fprintf(&sb, "From Coq Require Import List String Ascii ZArith NArith Bool.\nFrom YT Require Import Base.Str Model.Doc Check.Common Check.%s.\nImport ListNotations.\nLocal Open Scope list_scope.\nLocal Open Scope string_scope.\n", p.ID)
		fmt.Fprintf(&sb, "Definition cases : list Check.%s.case := [\n", p.ID)
		for j := lo; j < hi; j++ {
			if j > lo {
				sb.WriteString(";\n")
			}
			sb.WriteString(cases[coqIdx[j]].Coq)
		}
		sb.WriteString("\n].\n")
		fmt.Fprintf(&sb, "Definition bad := Eval vm_compute in Check.%s.mismatches cases.\nPrint bad.\n", p.ID)
		if err := os.WriteFile(filepath.Join(*out, fmt.Sprintf("cases_%02d.v", s)), []byte(sb.String()), 0o644); err != nil {
			panic(err)
		}
		// local->global index map
		m, _ := json.Marshal(coqIdx[lo:hi])
		_ = os.WriteFile(filepath.Join(*out, fmt.Sprintf("cases_%02d.idx", s)), m, 0o644)
		nshards++
	}
	var extraFail []string
	extra := map[string]any{}
	if p.Extra != nil && *only < 0 {
		extraFail, extra = p.Extra(*seed, *tier)
	}
	ks := make([]string, 0, len(kinds))
	for k := range kinds {
		ks = append(ks, k)
	}
	sort.Strings(ks)
	sum := map[string]any{"property": p.ID, "evaluations": len(coqIdx) + (len(cases) - len(coqIdx)), "with_coq": len(coqIdx),
		"distinct_nontrivial": len(distinct), "kinds": kinds, "go_failures": gofail, "rule": p.Rule,
		"shards": nshards, "corpus": ncorpus, "extra": extra, "extra_fail": extraFail}
	b, _ := json.MarshalIndent(sum, "", " ")
	_ = os.WriteFile(filepath.Join(*out, "summary.json"), b, 0o644)
}

// generous: the slowest healthy case (a 1.4 MB document, a 2048-iteration loop) takes about a second
const caseTimeout = 120 * time.Second

// every run of the harness works in its own temporary directory (two checks may run at once)
var procTmpRoot string

func procTmp(name string) string {
	if procTmpRoot == "" {
		d, err := os.MkdirTemp("", "ytcheck-")
		if err != nil {
			d = filepath.Join(os.TempDir(), fmt.Sprintf("ytcheck-%d", os.Getpid()))
		}
		procTmpRoot = d
	}
	d := filepath.Join(procTmpRoot, name)
	_ = os.MkdirAll(d, 0o755)
	return d
}
