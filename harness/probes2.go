package main

import (
	"bytes"
	"errors"
	"fmt"
	"math/rand"
	"os"
	"path/filepath"
	"reflect"
	"strings"

	"github.com/rkosegi/yaml-toolkit/dom"
	"github.com/rkosegi/yaml-toolkit/k8s"
	"github.com/rkosegi/yaml-toolkit/pipeline"
	"gopkg.in/yaml.v3"
)

func specFromYaml(src string) (pipeline.ActionSpec, error) {
	var spec pipeline.ActionSpec
	err := yaml.Unmarshal([]byte(src), &spec)
	return spec, err
}

// one executor used for many runs, some of which fail: a failed run leaves nothing behind, the error
// that comes back IS the failing operation's error, and a template that cannot be parsed fails
func c12ExecutorReuse(r *rand.Rand, idx int) Case {
	var fail []string
	pn := guard(func() {
		bad, e1 := specFromYaml("steps:\n  check:\n    order: 1\n    abort:\n      message: rejected\n  never:\n    order: 2\n    set:\n      data: {ran: true}\n")
		good, e2 := specFromYaml("steps:\n  s1:\n    steps:\n      s2:\n        steps:\n          s3:\n            set:\n              data: {deep: ok}\n")
		noData, e3 := specFromYaml("steps:\n  child:\n    steps:\n      inner:\n        set:\n          path: x\n")
		typo, e4 := specFromYaml("steps:\n  t:\n    order: 1\n    template:\n      template: \"v{{ .release.version }\"\n      path: out\n  after:\n    order: 2\n    set:\n      data: {after: true}\n")
		if e1 != nil || e2 != nil || e3 != nil || e4 != nil {
			fail = append(fail, fmt.Sprint("probe trees do not decode: ", e1, e2, e3, e4))
			return
		}
		d := anyToContainer(map[string]any{"release": map[string]any{"version": "1"}})
		ex := pipeline.New(pipeline.WithData(d))
		n := 150 + r.Intn(100)
		for i := 0; i < n; i++ {
			if err := ex.Execute(bad); err == nil {
				fail = append(fail, "a run with an abort step returned no error")
				return
			}
		}
		if err := ex.Execute(good); err != nil {
			fail = append(fail, fmt.Sprintf("after %d failed runs on one executor a correct tree fails: %v", n, err))
		}
		fin, _ := nodeToAny(d).(map[string]any)
		if fin["deep"] != "ok" || fin["ran"] != nil {
			fail = append(fail, fmt.Sprintf("after %d failed runs and one good run the data is %v", n, fin))
		}
		if err := ex.Execute(noData); err == nil || !errors.Is(err, pipeline.ErrNoDataToSet) {
			fail = append(fail, fmt.Sprintf("a set operation without data two steps down: the run returns %v, which is not (or does not wrap) ErrNoDataToSet", err))
		}
		if err := ex.Execute(typo); err == nil {
			fail = append(fail, "a template operation whose text opens an action and never closes it succeeded")
		}
		fin, _ = nodeToAny(d).(map[string]any)
		if fin["after"] != nil {
			fail = append(fail, fmt.Sprintf("steps after a template operation that cannot be parsed were executed: %v", fin))
		}
		// conditions read the data as it is when they are evaluated: the caller changes its document between two runs of
		// one executor; arguments of a call are gone for the conditions that follow it
		modes, e5 := specFromYaml("steps:\n  on:\n    order: 1\n    when: '{{ eq .mode \"on\" }}'\n    set:\n      data: {ranOn: true}\n  off:\n    order: 2\n    when: '{{ ne .mode \"on\" }}'\n    set:\n      data: {ranOff: true}\n  last:\n    order: 3\n    when: '{{ eq .mode \"off\" }}'\n    log:\n      message: 'mode={{ .mode }}'\n")
		calls, e6 := specFromYaml("steps:\n  d:\n    order: 1\n    define:\n      name: f\n      action:\n        set:\n          data: {called: true}\n  c:\n    order: 2\n    call:\n      name: f\n      args: {x: 1}\n  after:\n    order: 3\n    when: '{{ hasKey . \"args\" }}'\n    set:\n      data: {sawArgs: true}\n  probe:\n    order: 4\n    when: '{{ not (hasKey . \"args\") }}'\n    set:\n      data: {argsGone: true}\n")
		if e5 != nil || e6 != nil {
			fail = append(fail, fmt.Sprint("probe trees do not decode: ", e5, e6))
			return
		}
		d2 := anyToContainer(map[string]any{"mode": "off"})
		ex2 := pipeline.New(pipeline.WithData(d2))
		if err := ex2.Execute(modes); err != nil {
			fail = append(fail, fmt.Sprint("conditional run failed: ", err))
		}
		d2.AddValue("mode", dom.LeafNode("on")) // the caller's own document
		d2.Remove("ranOff")
		if err := ex2.Execute(modes); err != nil {
			fail = append(fail, fmt.Sprint("second conditional run failed: ", err))
		}
		if fin2, _ := nodeToAny(d2).(map[string]any); fin2["ranOn"] != true || fin2["ranOff"] != nil {
			fail = append(fail, fmt.Sprintf("the caller set mode=on between two runs of one executor; the second run's conditions saw something else: %v", fin2))
		}
		// message text is rendered wherever its actions stand: also behind braces that belong to the plain text
		brace, e7 := specFromYaml("steps:\n  l:\n    order: 1\n    log:\n      message: 'payload={\"user\":{\"id\":7}} status={{ .status }}'\n  a:\n    order: 2\n    abort:\n      message: 'rejected {\"limits\":{\"cpu\":2}} at 93% of quota, reason={{ .reason }}'\n")
		if e7 != nil {
			fail = append(fail, fmt.Sprint("probe tree does not decode: ", e7))
			return
		}
		lst := &evListener{}
		errB := pipeline.New(pipeline.WithListener(lst), pipeline.WithData(anyToContainer(map[string]any{"status": "ok", "reason": "quota"}))).Execute(brace)
		if errB == nil || !strings.Contains(errB.Error(), "at 93% of quota, reason=quota") || strings.Contains(errB.Error(), "{{") {
			fail = append(fail, fmt.Sprintf("abort message with braces in its plain text: the run returned %v", errB))
		}
		sawLog := false
		for _, e := range lst.evs {
			if strings.Contains(e.String(), "status=ok") {
				sawLog = true
			}
			if strings.Contains(e.String(), "status={{") {
				fail = append(fail, "log message with braces in its plain text was not rendered: "+e.String())
			}
		}
		if !sawLog {
			fail = append(fail, fmt.Sprintf("the rendered log message did not reach the listener: %v", evStrings(lst.evs)))
		}
		// a template operation whose rendered text the YAML parser rejects fails BEFORE anything is stored: what stood at its
		// path stays, nothing after it runs
		badYaml, e8 := specFromYaml("steps:\n  t:\n    order: 1\n    template:\n      template: \"a: [{{ .release.version }}, unclosed\"\n      parseAs: yaml\n      path: out\n  after:\n    order: 2\n    set:\n      data: {after: true}\n")
		if e8 != nil {
			fail = append(fail, fmt.Sprint("probe tree does not decode: ", e8))
			return
		}
		for _, start := range []map[string]any{{"release": map[string]any{"version": "1"}}, {"release": map[string]any{"version": "1"}, "out": map[string]any{"kept": "yes"}}} {
			d4 := anyToContainer(start)
			if err := pipeline.New(pipeline.WithData(d4)).Execute(badYaml); err == nil {
				fail = append(fail, "a template(parseAs yaml) operation whose text is no YAML succeeded")
			}
			if fin4 := nodeToAny(d4); !reflect.DeepEqual(fin4, any(start)) {
				fail = append(fail, fmt.Sprintf("a failed template(parseAs yaml) operation left its mark on the data: %v (was %v)", fin4, start))
			}
		}
		// extension actions given by two options are all there (the second option adds, it does not replace), and the
		// maps stay the caller's
		two, e9 := specFromYaml("steps:\n  a:\n    order: 1\n    ext:\n      func: first\n      args: {id: one}\n  b:\n    order: 2\n    ext:\n      func: second\n      args: {id: two}\n")
		if e9 != nil {
			fail = append(fail, fmt.Sprint("probe tree does not decode: ", e9))
			return
		}
		l5 := &evListener{}
		m1 := map[string]pipeline.ActionFactory{"first": &traceFactory{l: l5}}
		m2 := map[string]pipeline.ActionFactory{"second": &traceFactory{l: l5}}
		ex5 := pipeline.New(pipeline.WithListener(l5), pipeline.WithExtActions(m1), pipeline.WithExtActions(m2), pipeline.WithData(anyToContainer(map[string]any{})))
		if err := ex5.Execute(two); err != nil {
			fail = append(fail, fmt.Sprintf("extension actions registered by two WithExtActions options: the run fails with %v", err))
		}
		if len(m1) != 1 || len(m2) != 1 || m1["first"] == nil || m2["second"] == nil {
			fail = append(fail, fmt.Sprintf("the maps given to WithExtActions were changed: %d and %d entries", len(m1), len(m2)))
		}
		d3 := anyToContainer(map[string]any{})
		if err := pipeline.New(pipeline.WithData(d3)).Execute(calls); err != nil {
			fail = append(fail, fmt.Sprint("define/call run failed: ", err))
		}
		if fin3, _ := nodeToAny(d3).(map[string]any); fin3["called"] != true || fin3["sawArgs"] != nil || fin3["argsGone"] != true {
			fail = append(fail, fmt.Sprintf("conditions after a call still see its arguments (or the call did not run): %v", fin3))
		}
	})
	if pn != "" {
		fail = append(fail, "panic: "+pn)
	}
	return Case{Kind: "executor-reuse", Desc: "150-250 failing runs, then a good one, an error-identity probe and an unparsable template on ONE executor", Fail: fail, Nontrivial: true, Key: fmt.Sprint("reuse", idx)}
}

// forEach over a list of records reached through the data tree, and items given by reference to leaves that are not strings
func c14QueryRecords(r *rand.Rand) Case {
	var fail []string
	pn := guard(func() {
		tree := map[string]any{"forEach": map[string]any{"query": "users", "var": "u", "action": map[string]any{
			"forEach": map[string]any{"query": "u.roles", "var": "w", "action": map[string]any{
				"template": map[string]any{"template": "{{ .acc }}[{{ .w }}]", "path": "acc"}}}}}}
		bs, _ := yaml.Marshal(tree)
		spec, err := specFromYaml(string(bs))
		if err != nil {
			fail = append(fail, "tree does not decode: "+err.Error())
			return
		}
		d := anyToContainer(map[string]any{"acc": "", "users": []any{
			map[string]any{"name": "a", "roles": []any{"r1", "r2"}}, map[string]any{"name": "b", "roles": []any{"r3"}}}})
		if err := pipeline.New(pipeline.WithData(d)).Execute(spec); err != nil {
			fail = append(fail, "forEach over records failed: "+err.Error())
		}
		if got := fmt.Sprint(nodeToAny(d).(map[string]any)["acc"]); got != "[r1][r2][r3]" {
			fail = append(fail, fmt.Sprintf("a forEach whose query goes through the outer item (u.roles) visited %q, expected [r1][r2][r3]", got))
		}
		// items by reference to a number, a boolean and a string
		tree2 := map[string]any{"forEach": map[string]any{"item": []any{map[string]any{"ref": "cfg.replicas"}, map[string]any{"ref": "cfg.on"}, map[string]any{"ref": "cfg.name"}, "lit"}, "var": "w",
			"action": map[string]any{"template": map[string]any{"template": "{{ .acc }}[{{ .w }}]", "path": "acc"}}}}
		bs2, _ := yaml.Marshal(tree2)
		spec2, err2 := specFromYaml(string(bs2))
		if err2 != nil {
			fail = append(fail, "tree does not decode: "+err2.Error())
			return
		}
		d2 := anyToContainer(map[string]any{"acc": "", "cfg": map[string]any{"replicas": 3, "on": true, "name": "web"}})
		if err := pipeline.New(pipeline.WithData(d2)).Execute(spec2); err != nil {
			fail = append(fail, "forEach over referenced items failed: "+err.Error())
		}
		if got := fmt.Sprint(nodeToAny(d2).(map[string]any)["acc"]); got != "[3][true][web][lit]" {
			fail = append(fail, fmt.Sprintf("items given by reference to a number, a boolean and a string were bound as %q, expected [3][true][web][lit]", got))
		}
	})
	if pn != "" {
		fail = append(fail, "panic: "+pn)
	}
	return Case{Kind: "foreach-records", Desc: "query through the outer item; items by reference to non-string leaves", Fail: fail, Nontrivial: true, Key: "foreach-records"}
}

// one configured k8s builder opens two manifests: each document saves into its own file
func c17BuilderReuse(r *rand.Rand, idx int) Case {
	dir := procTmp("c17")
	fa, fb := filepath.Join(dir, fmt.Sprintf("reuseA%d.yaml", idx)), filepath.Join(dir, fmt.Sprintf("reuseB%d.yaml", idx))
	defer os.Remove(fa)
	defer os.Remove(fb)
	ta := "apiVersion: v1\nkind: ConfigMap\nmetadata:\n  name: a\ndata:\n  app.name: A\n  app.port: \"1\"\n"
	tb := "apiVersion: v1\nkind: ConfigMap\nmetadata:\n  name: b\ndata:\n  svc.host: B\n"
	_ = os.WriteFile(fa, []byte(ta), 0o644)
	_ = os.WriteFile(fb, []byte(tb), 0o644)
	var fail []string
	pn := guard(func() {
		b := k8s.NewBuilder().Decoder(k8s.DecodeEmbeddedProps()).Encoder(k8s.EncodeEmbeddedProps())
		da, e1 := b.Manifest(fa).Open()
		db, e2 := b.Manifest(fb).Open()
		if e1 != nil || e2 != nil {
			fail = append(fail, fmt.Sprint("open failed: ", e1, e2))
			return
		}
		da.Document().AddValueAt("app.extra", dom.LeafNode("x"))
		if err := da.Save(); err != nil {
			fail = append(fail, "Save failed: "+err.Error())
		}
		after, _ := os.ReadFile(fb)
		if !bytes.Equal(after, []byte(tb)) {
			fail = append(fail, "saving the document opened from one manifest rewrote the other manifest opened through the same builder")
		}
		ma, err := k8s.ManifestFromFile(fa)
		if err != nil {
			fail = append(fail, "manifest A does not reload: "+err.Error())
		} else if v := ma.StringData().Get("app.extra"); v == nil || *v != "x" {
			fail = append(fail, "the edit of the document opened from manifest A is not in manifest A after Save")
		}
		_ = db
		_ = reflect.DeepEqual
	})
	if pn != "" {
		fail = append(fail, "panic: "+pn)
	}
	return Case{Kind: "builder-reuse", Desc: "one builder, two manifests", Fail: fail, Nontrivial: true, Key: fmt.Sprint("builder-reuse", idx)}
}
